#!/venv/bin/python
"""kernel_extract.py -- SEMANTIC translator for the small numeric kernels (property C01 and users of the kernels).

For each kernel listed in KERNELS the Python body in the CURRENT sources ($FF_REPO, default /repo) is executed
symbolically, per ENTRY of the arrays, and the symbolic value of a generic entry of the result is written as a Coq
term over the `Ops` record (coq/Base/Ops.v) into coq/Extracted/Kernels.v.  coq/Proofs/KernelTie.v proves, over the
real instance RO, that each translated term equals the hand-written model function (coq/Model/Numeric.v, ..), so
an edit of a kernel that changes its meaning breaks a named proof obligation, while an edit that does not (renamed
locals, split / merged statements, reordered independent statements) leaves it intact.

FAIL-CLOSED: any statement / expression / call shape outside the subset below makes the kernel *untranslated*:
its definition is omitted and `<kernel>_untranslated : list string` (and `kernel_untranslated`) is non-empty, which
breaks the obligations `<kernel>_translated` / `kernels_translated` of Proofs/KernelTie.v.

Supported subset (everything else raises Untranslatable):
  statements   x = e | a, b = <tuple / list / shape> | x.real = e | x.imag = e | x[mask] = e | x[:, mask] = e | x[g] = e |
               x[g + 1] = e | x[0] = e | x op= e (+ - * /) | return e | docstring | f(..) as a statement (for its effect on
               an out= buffer) | def f(..) inside a kernel (closure) | assert / `if ..: raise ..` (recorded as preconditions) |
               if <static test>: .. else: ..   (test decided from None-ness / strings / booleans / ranks fixed by the spec;
               `and` / `or` are decided as soon as the operands the executor can decide settle them) |
               for g in range(len(x)) / util.progressbar_range(len(x), ..) / enumerate(zip_longest(A, B, fillvalue=None)):
               the body is executed ONCE with a symbolic g, in two passes (see Interp.exec_for): buffers only written through
               x[g] are filled row-wise, other buffers written in the body hold unconstrained values on entry of an iteration,
               `acc += e` on a buffer of the enclosing scope becomes acc + sum_g e, `x[g + 1] = step(g, x[g])` a recurrence
  expressions  names, int / float / imaginary constants (non-integer floats become named literal parameters whose exact
               binary64 value is emitted as a dyadic (m, e)), None / True / str constants, + - * / @ ** 2 | 3, unary + - ~,
               one comparison > >= < <= == != (real operands; == / != as |x - y| > 0), `a if <static test> else b`,
               `x is None`, `s == 'str'`, `s in ('a', 'b')`, tuples / lists / *x.shape, lambda, comprehensions over Python
               sequences, zip, isinstance(.., (list, tuple)), list * int,
               x.real, x.imag, x.shape, x.ndim, x.dtype, x.T, x.conj(), x.swapaxes(-1, -2), x.transpose(perm),
               x.sum(axis=-1), x.reshape(shape) (opaque: only a spec may look through it), basic indexing with  :  ...  None
               1:  :-1  loop indices and integer constants, x[idx] / x[..., idx, :, :] for an index array whose VALUES are
               not modelled, x[mask] (compacting selection: entries are followed position by position),
               np.<uf>.outer(a, b) for uf in add subtract multiply,
               np.add subtract multiply divide true_divide abs absolute cos sin negative conj not_equal logical_and
               (out=, where=; where= without out= leaves unconstrained entries), np.empty / zeros (shape, dtype=..),
               np.identity, np.diff, np.matmul(a, b, out=) (out may overlap an operand: NumPy computes into a temporary),
               np.einsum / oe.contract('lit', a, b, ..) incl. '...', oe.contract_expression('lit', shapes..) and calls of the
               result, np.tensordot(a, b, axes=[..]), np.polyval([consts], x), np.broadcast_to, np.asarray, np.pi, len(x),
               ufuncs as values (np.conj in a tuple of functions),
               util.<f>(..) / numeric.<f>(..) / _b.<f>(..) / <f>(..): calls of package functions are INLINED (their body is
               executed by the same executor; decorators other than util.parse_optional_parameters are refused) unless the
               spec names a summary (an application of the callee's own translated kernel) or an oracle (nla.eigh,
               np.searchsorted, util.parse_spectrum, util.get_indices_from_identifiers); attributes / method results of
               objects (self, pulse, basis) are those the spec provides
  semantics    arrays are maps index -> entry (real | complex pair | bool) with NumPy trailing-axis broadcasting
               (sizes are symbols; two sizes broadcast only if they are the same symbol or one of them is 1); buffers are
               mutable, `.real` / `.imag` / x[g] are views onto the same buffer, `out=` writes into the buffer, `where=mask`
               keeps the previous entry where the mask is false; slices / transposes are read-only snapshots that may not be
               read after their source was written; uninitialised buffer contents (np.empty, work buffers on entry) and the
               state earlier loop iterations leave in work buffers are symbols ("junk" parameters of the emitted term,
               universally quantified in the Coq theorem, which therefore also proves the result does not depend on them);
               complex * and / are emitted by their textbook formulas over the reals (NumPy's scaled complex division is not
               modelled).
  refused      writes through slice / transpose views, reads of such a view after its source was written, writes to input arrays
               the spec declares read-only, | on masks, comparisons of complex values, cos / sin of complex
               values, keyword arguments not listed above, other loops / loop bodies, try, while, anything else.

Trusted: this file (the semantics above), Python's `ast`, and the calling context stated in each spec of KERNELS
(ranks / dtypes / which buffers share which shape).  Not trusted: the model functions -- their equality with the
translated terms is proved in Coq.
"""
import ast
import os
import sys

REPO = os.environ.get('FF_REPO', '/repo')
VERIF = os.path.dirname(os.path.dirname(os.path.abspath(__file__)))
OUT = os.path.join(VERIF, 'coq', 'Extracted', 'Kernels.v')


class Untranslatable(Exception):
    pass


def bad(node, msg):
    ln = getattr(node, 'lineno', None)
    src = ''
    try:
        src = ast.unparse(node)
    except Exception:      # noqa
        pass
    raise Untranslatable('%s%s%s' % (msg, ' at line %s' % ln if ln else '', (': ' + src[:80]) if src else ''))


# ------------------------------------------------------------------ dyadic literals (as tools/extract.py)
def dyadic(x):
    x = float(x)
    if x != x or x in (float('inf'), float('-inf')):
        raise Untranslatable('non-finite literal')
    if x == 0.0:
        return (0, 0)
    n, dn = x.as_integer_ratio()
    e = -(dn.bit_length() - 1)
    while n % 2 == 0:
        n //= 2
        e += 1
    return (n, e)


def zlit(z):
    return str(z) if z >= 0 else '(%d)' % z


# ------------------------------------------------------------------ entries
# scalar expressions are tuples: ('var', name) ('int', k) ('lit', i) ('elem', array, comp, idx)
#   ('add'|'sub'|'mul'|'div', a, b) ('neg'|'abs'|'cos'|'sin'|'sqrt', a) ('ite', c, a, b) ('sum', v, size, body)
# boolean expressions: ('gt', a, b) ('not', c)
class Ent:
    __slots__ = ('kind', 're', 'im', 'b')

    def __init__(self, kind, re=None, im=None, b=None):
        self.kind, self.re, self.im, self.b = kind, re, im, b


def real(e):
    return Ent('real', re=e)


def cplx(re, im):
    return Ent('complex', re=re, im=im)


def boolean(b):
    return Ent('bool', b=b)


ZERO, ONE = ('int', 0), ('int', 1)


def promote(x):
    if x.kind == 'real':
        return x.re, ZERO
    if x.kind == 'complex':
        return x.re, x.im
    raise Untranslatable('boolean used as a number')


def ent_binop(op, x, y):
    if x.kind == 'bool' or y.kind == 'bool':
        raise Untranslatable('arithmetic on booleans')
    if x.kind == 'real' and y.kind == 'real':
        return real((op, x.re, y.re))
    (a, b), (c, d) = promote(x), promote(y)
    if op in ('add', 'sub'):
        return cplx((op, a, c), (op, b, d))
    if op == 'mul':
        return cplx(('sub', ('mul', a, c), ('mul', b, d)), ('add', ('mul', a, d), ('mul', b, c)))
    if op == 'div':
        den = ('add', ('mul', c, c), ('mul', d, d))
        return cplx(('div', ('add', ('mul', a, c), ('mul', b, d)), den),
                    ('div', ('sub', ('mul', b, c), ('mul', a, d)), den))
    raise Untranslatable('binary operation %s' % op)


def ent_unop(op, x):
    if op == 'conj':
        if x.kind == 'real':
            return x
        if x.kind == 'complex':
            return cplx(x.re, ('neg', x.im))
    if op == 'neg':
        if x.kind == 'real':
            return real(('neg', x.re))
        if x.kind == 'complex':
            return cplx(('neg', x.re), ('neg', x.im))
    if op == 'abs':
        if x.kind == 'real':
            return real(('abs', x.re))
        if x.kind == 'complex':
            return real(('sqrt', ('add', ('mul', x.re, x.re), ('mul', x.im, x.im))))
    if op in ('cos', 'sin') and x.kind == 'real':
        return real((op, x.re))
    if op == 'not' and x.kind == 'bool':
        return boolean(('not', x.b))
    raise Untranslatable('%s of a %s value' % (op, x.kind))


def ent_compare(op, x, y):
    if x.kind != 'real' or y.kind != 'real':
        raise Untranslatable('comparison of non-real values')
    a, b = x.re, y.re
    if op == 'Gt':
        return boolean(('gt', a, b))
    if op == 'Lt':
        return boolean(('gt', b, a))
    if op == 'GtE':
        return boolean(('not', ('gt', b, a)))
    if op == 'LtE':
        return boolean(('not', ('gt', a, b)))
    if op in ('Eq', 'NotEq'):      # over the reals: x == y  <->  not |x - y| > 0  (|x| > 0 for y the constant 0)
        ne = ent_not_equal(x, y).b
        return boolean(ne if op == 'NotEq' else ('not', ne))
    raise Untranslatable('comparison %s' % op)


def ent_bool2(op, x, y):
    if x.kind != 'bool' or y.kind != 'bool':
        raise Untranslatable('logical operation on non-booleans')
    if op == 'and':
        return boolean(('and', x.b, y.b))
    raise Untranslatable('logical operation %s' % op)


def ent_not_equal(x, y):
    """np.not_equal over the reals: x != y  <->  |x - y| > 0 (written |x| > 0 for y the constant 0, as the model does)"""
    if x.kind != 'real' or y.kind != 'real':
        raise Untranslatable('not_equal of non-real values')
    dlt = x.re if y.re == ZERO else ('sub', x.re, y.re)
    return boolean(('gt', ('abs', dlt), ZERO))


def ent_ite(c, x, y):
    """entry x where c else y (c a boolean expression)"""
    if x.kind == 'bool' or y.kind == 'bool':
        raise Untranslatable('masked write of booleans')
    if x.kind == 'real' and y.kind == 'real':
        return real(('ite', c, x.re, y.re))
    (a, b), (p, q) = promote(x), promote(y)
    return cplx(('ite', c, a, p), ('ite', c, b, q))


# ------------------------------------------------------------------ arrays
ALL_BUFS = []       # every buffer of the current translation (state save / restore around loop bodies)
TRACK = []          # stack of write logs [(buffer, prefix)] while a loop body is executed


class Unusable:
    """a name rebound inside a loop body: its value after the loop is not modelled"""


class Opaque:
    """a value the executor carries but never inspects (e.g. the dict of cached intermediates)"""


class Buf:
    """mutable array: shape (tuple of sizes: 'sym' or ('sym', offset)), kind real|complex|bool, fn : index -> Ent"""
    def __init__(self, shape, kind, fn, name=None, readonly=False, frozen=False):
        self.shape, self.kind, self.fn = tuple(shape), kind, fn
        self.name, self.readonly, self.frozen = name, readonly, frozen
        self.version = 0          # bumped by every write
        self.src = None           # for a read-only view (slice / transpose / x.T): (source buffer, its version at creation)
        ALL_BUFS.append(self)


class ABuf(Buf):
    """an array that also carries attributes the spec provides (e.g. a Basis: btype, isherm, d)"""
    def __init__(self, attrs, *a, **k):
        Buf.__init__(self, *a, **k)
        self.attrs = attrs


class FuncVal:
    """a NumPy ufunc used as a value (np.conj in a tuple of functions)"""
    def __init__(self, name):
        self.name = name


class LocalFn:
    """a function defined inside a kernel (closure over the kernel's variables)"""
    def __init__(self, node, env):
        self.node, self.env = node, env


class View:
    """x.real / x.imag / x (comp in 're' 'im' 'all') of a buffer"""
    def __init__(self, buf, comp, prefix=()):
        self.buf, self.comp, self.prefix = buf, comp, tuple(prefix)      # prefix: x[g] for a loop index g

    @property
    def shape(self):
        return self.buf.shape[len(self.prefix):]


class Shape:
    def __init__(self, dims):
        self.dims = tuple(dims)


class SizeVal:
    """len(x): a symbolic size"""
    def __init__(self, size):
        self.size = size


class LoopIndex:
    """the variable of `for g in range(n)`: usable as an integer index x[g] only"""
    def __init__(self, sym):
        self.sym = sym


class Contraction:
    """oe.contract_expression('subscripts', shape, ..): a callable einsum"""
    def __init__(self, subscripts):
        self.subscripts = subscripts


class Obj:
    """an object whose attributes the spec provides (e.g. `self` of a PulseSequence method)"""
    def __init__(self, attrs, noop_methods=(), methods=None):
        self.attrs, self.noop_methods = attrs, tuple(noop_methods)
        self.methods = methods or {}      # name -> function(args, kwargs): results the calling context provides


class IntIdx:
    """an integer index array of shape (n,) whose VALUES are not modelled (e.g. np.searchsorted(..) - 1, clipped):
    x[idx] gathers along the first axis, entry l of the result is x[sel l]"""
    def __init__(self, size, sel):
        self.size, self.sel = size, sel


class OpaqueMask:
    """a comparison of an IntIdx: only usable to overwrite entries of that IntIdx"""
    def __init__(self, of):
        self.of = of


class Reshaped:
    """x.reshape(shape): NOT modelled (index arithmetic of the row-major merge); a spec may take the array before the
    reshape (`.value`) as the result of a kernel and say so"""
    def __init__(self, value, shape):
        self.value, self.shape = value, shape


class DType:
    def __init__(self, kind):
        self.kind = kind


def mark_view(view, source):
    """`view` is a read-only snapshot of `source` (NumPy: a view): it may be read only while source is unchanged"""
    while source.src is not None and source.frozen:
        source = source.src[0]
    view.src = (source, source.version)
    return view


def snapshot(v):
    """(shape, kind, fn) of the CURRENT contents of a buffer / view"""
    if isinstance(v, Buf):
        if v.src is not None and v.src[0].version != v.src[1]:
            raise Untranslatable('read of a slice / transpose view whose source buffer was written after the view was taken')
        return v.shape, v.kind, v.fn
    if isinstance(v, View):
        f0, k, pre, shape = v.buf.fn, v.buf.kind, v.prefix, v.shape
        f = f0 if not pre else (lambda idx: f0(pre + tuple(idx)))
        if v.comp == 'all':
            return shape, k, f
        if v.comp == 're':
            if k == 'real':
                return shape, k, f
            return shape, 'real', (lambda idx: real(f(idx).re))
        if v.comp == 'im':
            if k == 'real':
                return shape, 'real', (lambda idx: real(ZERO))
            return shape, 'real', (lambda idx: real(f(idx).im))
    raise Untranslatable('array expected, found %s' % type(v).__name__)


def is_array(v):
    return isinstance(v, (Buf, View))


def bshape(s1, s2):
    out = []
    n = max(len(s1), len(s2))
    for i in range(1, n + 1):
        a = s1[-i] if i <= len(s1) else None
        b = s2[-i] if i <= len(s2) else None
        if a is None or b is None or a == b or b == 1:
            out.append(a if a is not None else b)
        elif a == 1:
            out.append(b)
        else:
            raise Untranslatable('shapes %r and %r do not broadcast symbolically' % (s1, s2))
    return tuple(reversed(out))


def sub_idx(shape, idx):
    return tuple(idx[len(idx) - len(shape):]) if shape else ()


def const_buf(ent):
    return Buf((), ent.kind, (lambda idx: ent), frozen=True)


def elementwise(f, *vals):
    snaps = [snapshot(v) for v in vals]
    shape = ()
    for s, _, _ in snaps:
        shape = bshape(shape, s)
    fns = [(s, fn) for s, _, fn in snaps]

    def g(idx):
        return f(*[fn(sub_idx(s, idx)) for s, fn in fns])
    # kind of the result: probe with a symbolic index
    probe = g(tuple(('?%d' % i) for i in range(len(shape))))
    return Buf(shape, probe.kind, g)


def write(node, target, value, mask):
    """target[...] = value where mask (mask None: everywhere); target a Buf / View"""
    view = target if isinstance(target, View) else View(target, 'all')
    buf, pre, shape = view.buf, view.prefix, view.shape
    if buf.frozen:
        bad(node, 'write to a scalar / constant / read-only view')
    if buf.readonly:
        bad(node, 'write to the read-only input %s' % buf.name)
    buf.version += 1      # read-only views (slices, transposes) taken before this write may no longer be read
    if TRACK:
        TRACK[-1].append((buf, pre))
    vs, vk, vf = snapshot(value)
    if bshape(shape, vs) != shape:
        bad(node, 'value of shape %r does not fit buffer of shape %r' % (vs, shape))
    if mask is not None:
        ms, mk, mf = snapshot(mask)
        if mk != 'bool':
            bad(node, 'mask is not boolean')
        if bshape(shape, ms) != shape:
            bad(node, 'mask of shape %r does not fit buffer of shape %r' % (ms, shape))
    if (vk == 'bool') != (buf.kind == 'bool') or (vk == 'bool' and (mask is not None or view.comp != 'all')):
        bad(node, 'write of / into booleans (only an unmasked write of a boolean array into a boolean buffer)')
    if vk == 'complex' and (buf.kind == 'real' or view.comp != 'all'):
        bad(node, 'complex value written into a real location')
    old, comp, kind, np_ = buf.fn, view.comp, buf.kind, len(pre)

    def new(idx):
        o = old(idx)
        if np_:
            if tuple(idx[:np_]) != pre:      # another row: untouched by this write
                return o
            sub = tuple(idx[np_:])
        else:
            sub = idx
        v = vf(sub_idx(vs, sub))
        if kind == 'bool':
            return v
        c = None if mask is None else mf(sub_idx(ms, sub)).b

        def sel(n, prev):
            return n if c is None else ('ite', c, n, prev)
        if kind == 'real':
            if comp == 'im':
                raise Untranslatable('write to .imag of a real array')
            return real(sel(v.re, o.re))
        if comp == 'all':
            vr, vi = promote(v)
            return cplx(sel(vr, o.re), sel(vi, o.im))
        if comp == 're':          # a write through the .real view never touches the imaginary parts
            return cplx(sel(v.re, o.re), o.im)
        return cplx(o.re, sel(v.re, o.im))
    buf.fn = new


def _unknown(name, kind, idx):
    idx = tuple(idx)
    if kind == 'real':
        return real(('elem', name, 're', idx))
    if kind == 'complex':
        return cplx(('elem', name, 're', idx), ('elem', name, 'im', idx))
    raise Untranslatable('unknown boolean state')


def subst(e, g, r):
    """replace the index symbol g by the index expression r everywhere in an expression tree"""
    if isinstance(e, str):
        return r if e == g else e
    if isinstance(e, tuple):
        if len(e) == 2 and e[0] == g and isinstance(e[1], int):
            return idx_shift(r, e[1])
        return tuple(subst(x, g, r) for x in e)
    return e


def subst_ent(x, g, r):
    if x.kind == 'real':
        return real(subst(x.re, g, r))
    if x.kind == 'complex':
        return cplx(subst(x.re, g, r), subst(x.im, g, r))
    return boolean(subst(x.b, g, r))


# ------------------------------------------------------------------ the executor
class _Return(Exception):
    def __init__(self, value):
        self.value = value


UF2 = {'add': 'add', 'subtract': 'sub', 'multiply': 'mul', 'divide': 'div', 'true_divide': 'div'}
UF1 = {'abs': 'abs', 'absolute': 'abs', 'cos': 'cos', 'sin': 'sin', 'negative': 'neg', 'conj': 'conj',
       'conjugate': 'conj'}
BINOPS = {'Add': 'add', 'Sub': 'sub', 'Mult': 'mul', 'Div': 'div'}
IGNORED_DECORATORS = ('util.parse_optional_parameters',)


class Interp:
    def __init__(self):
        self.modules = {}
        self.lits = []            # exact values of the non-integer float literals, in order of first evaluation
        self.lit_of_node = {}
        self.fresh = 0
        self.depth = 0
        self.oracles = {}         # dotted name -> function(args) giving the (symbolic) result of an external routine
        self.preconditions = []
        self.mask_ids = {}        # (shape, boolean expression at probe indices) -> id of the mask
        self.loops = []           # stack of the loops being summarised
        self.summaries = {}       # (module, function) -> summary used instead of inlining the call
        self.probe = None         # name of a local variable of the kernel whose first binding is the result

    def module(self, name):
        if name not in self.modules:
            path = os.path.join(REPO, 'filter_functions', name + '.py')
            tree = ast.parse(open(path).read())
            fns = {n.name: n for n in tree.body if isinstance(n, ast.FunctionDef)}
            for c in tree.body:
                if isinstance(c, ast.ClassDef):
                    for n in c.body:
                        if isinstance(n, ast.FunctionDef) and not n.decorator_list:
                            fns['%s.%s' % (c.name, n.name)] = n
            self.modules[name] = fns
        return self.modules[name]

    def gensym(self, p):
        self.fresh += 1
        return '%s%d' % (p, self.fresh)

    # ---------------------------------------------------------- calls of package functions (inlined)
    def call_function(self, modname, fname, args, kwargs, node=None):
        if self.depth >= 1 and (modname, fname) in self.summaries:
            return self.summaries[(modname, fname)](self, args, kwargs, node)
        fns = self.module(modname)
        if fname not in fns:
            bad(node, 'unknown function %s.%s' % (modname, fname))
        fd = fns[fname]
        for dec in fd.decorator_list:
            d = dec.func if isinstance(dec, ast.Call) else dec
            if dotted(d) is None or '.'.join(dotted(d)) not in IGNORED_DECORATORS:
                bad(dec, 'decorator of %s.%s' % (modname, fname))
        a = fd.args
        if a.vararg or a.kwarg or a.posonlyargs:
            bad(fd, 'signature of %s.%s' % (modname, fname))
        names = [x.arg for x in a.args]
        env = {}
        if len(args) > len(names):
            bad(node, 'too many positional arguments')
        for n, v in zip(names, args):
            env[n] = v
        defaults = dict(zip(names[len(names) - len(a.defaults):], a.defaults))
        for x, dflt in zip(a.kwonlyargs, a.kw_defaults):
            names.append(x.arg)
            if dflt is not None:
                defaults[x.arg] = dflt
        for k, v in kwargs.items():
            if k not in names or k in env:
                bad(node, 'keyword argument %s' % k)
            env[k] = v
        for n in names:
            if n not in env:
                if n not in defaults:
                    bad(node, 'missing argument %s' % n)
                d = defaults[n]
                if not isinstance(d, ast.Constant):
                    bad(d, 'non-constant default')
                env[n] = self.constant(d)
        self.depth += 1
        if self.depth > 8:
            bad(node, 'call depth')
        saved = getattr(self, 'modname', None)
        self.modname = modname
        try:
            self.exec_body(fd.body, env)
            res = None
        except _Return as r:
            res = r.value
        self.modname = saved
        self.depth -= 1
        return res

    # ---------------------------------------------------------- statements
    def exec_body(self, body, env):
        for st in body:
            self.exec_stmt(st, env)

    def exec_stmt(self, st, env):
        if isinstance(st, ast.Expr):
            if isinstance(st.value, ast.Constant) and isinstance(st.value.value, str):
                return
            c = st.value
            if isinstance(c, ast.Call) and isinstance(c.func, ast.Attribute) and isinstance(c.func.value, ast.Name) \
                    and isinstance(env.get(c.func.value.id), Obj) and c.func.attr in env[c.func.value.id].noop_methods \
                    and not c.args and not c.keywords:
                return      # e.g. self.diagonalize(): fills the attributes the spec provides
            if isinstance(st.value, ast.Call):      # a call for its effect on an out= buffer
                self.eval(st.value, env)
                return
            bad(st, 'expression statement')
        if isinstance(st, ast.FunctionDef):
            a = st.args
            if st.decorator_list or a.vararg or a.kwarg or a.kwonlyargs or a.defaults or a.posonlyargs:
                bad(st, 'local function definition (plain positional parameters only)')
            env[st.name] = LocalFn(st, env)
            return
        if isinstance(st, ast.Pass):
            return
        if isinstance(st, ast.Assert):
            self.preconditions.append(ast.unparse(st.test))
            return
        if isinstance(st, ast.Return):
            raise _Return(self.eval(st.value, env) if st.value is not None else None)
        if isinstance(st, ast.AnnAssign) and st.value is not None and st.simple:
            st = ast.copy_location(ast.Assign(targets=[st.target], value=st.value), st)
        if isinstance(st, ast.Assign):
            if len(st.targets) != 1:
                bad(st, 'multiple assignment targets')
            tg = st.targets[0]
            val = self.eval(st.value, env)
            if isinstance(tg, ast.Name):
                env[tg.id] = val
                if self.probe == tg.id and self.depth == 1:
                    raise _Return(val)
                return
            if isinstance(val, Shape):
                val = tuple(SizeVal(dm) for dm in val.dims)
            if isinstance(val, list):
                val = tuple(val)
            if isinstance(tg, ast.Tuple) and all(isinstance(x, ast.Name) for x in tg.elts) and isinstance(val, tuple) \
                    and len(val) == len(tg.elts):
                for x, v in zip(tg.elts, val):
                    env[x.id] = v
                return
            if isinstance(tg, ast.Attribute) and tg.attr in ('real', 'imag'):
                base = self.eval(tg.value, env)
                if not is_array(base):
                    bad(tg, 'attribute assignment on a non-array')
                if isinstance(base, View) and base.comp != 'all':
                    bad(tg, 'nested component view')
                buf = base.buf if isinstance(base, View) else base
                pre = base.prefix if isinstance(base, View) else ()
                write(st, View(buf, 're' if tg.attr == 'real' else 'im', pre), self.as_array(val, st), None)
                return
            if isinstance(tg, ast.Subscript) and isinstance(self.eval(tg.value, env), IntIdx):
                base, ix = self.eval(tg.value, env), self.eval(tg.slice, env)
                if isinstance(ix, OpaqueMask) and ix.of is base and const_int(val) is not None:
                    return      # clipping of an index array whose values are not modelled
                bad(st, 'assignment into an index array')
            if isinstance(tg, ast.Subscript) and self.row_index(tg.slice, env) is not None:
                write(st, self.eval(tg, env), self.as_array(val, st), None)      # x[g] = value: row g (g + 1, 0)
                return
            if isinstance(tg, ast.Subscript):
                base = self.eval(tg.value, env)
                if not is_array(base):
                    bad(tg, 'item assignment on a non-array')
                items = list(tg.slice.elts) if isinstance(tg.slice, ast.Tuple) else [tg.slice]
                lead = 0
                while lead < len(items) - 1 and isinstance(items[lead], ast.Slice) and items[lead].lower is None \
                        and items[lead].upper is None and items[lead].step is None:
                    lead += 1
                ix = self.bool_index(items[lead], env) if lead == len(items) - 1 else None
                if ix is None:
                    bad(tg, 'item assignment (only x[mask], x[:, mask] with a boolean mask, x[g])')
                self.masked_write(st, base, lead, ix, self.as_array(val, st))
                return
            bad(st, 'assignment target')
        if isinstance(st, ast.AugAssign):
            op = BINOPS.get(type(st.op).__name__)
            if op is None:
                bad(st, 'augmented assignment operator')
            cur = self.eval(st.target, env)
            val = self.as_array(self.eval(st.value, env), st)
            if not is_array(cur):
                bad(st, 'augmented assignment to a non-array')
            if self.loops and op == 'add' and isinstance(st.target, ast.Name) and isinstance(cur, Buf) \
                    and cur in self.loops[-1]['pre'] and not cur.frozen and not cur.readonly:
                # `acc += value` on a buffer that exists outside the loop: summarised as acc + sum_g value
                self.loops[-1]['accs'].append((cur, snapshot(val), st))
                return
            write(st, cur, elementwise(lambda x, y: ent_binop(op, x, y), cur, val), None)
            return
        if isinstance(st, ast.If) and len(st.body) == 1 and isinstance(st.body[0], ast.Raise) and not st.orelse:
            self.preconditions.append('not (%s)' % ast.unparse(st.test))     # argument validation: a precondition
            return
        if isinstance(st, ast.If):
            t = self.eval(st.test, env)
            if not isinstance(t, bool):
                bad(st.test, 'branch on a value that is not decided by the calling context')
            self.exec_body(st.body if t else st.orelse, env)
            return
        if isinstance(st, ast.For):
            return self.exec_for(st, env)
        bad(st, 'statement %s' % type(st).__name__)

    def mask_key(self, mask):
        """identity of a boolean mask: its entry at canonical probe indices (two masks with the same expression are the same)"""
        shape, kind, fn = snapshot(mask)
        if kind != 'bool':
            raise Untranslatable('boolean mask expected')
        key = (shape, fn(tuple('$%d' % i for i in range(len(shape)))).b)
        if key not in self.mask_ids:
            self.mask_ids[key] = len(self.mask_ids) + 1
        return self.mask_ids[key]

    def compact(self, base, mask, node):
        """base[mask] for a boolean mask of the shape of base: a 1-D array whose entry at the compact index of position p
        (an index expression ('cidx', mask id, p)) is base[p]; any other index is unknown"""
        shape, kind, fn = snapshot(base)
        if snapshot(mask)[0] != shape:
            bad(node, 'boolean index of a different shape')
        kid = self.mask_key(mask)

        def g(idx):
            c = idx[0]
            if isinstance(c, tuple) and len(c) == 3 and c[0] == 'cidx' and c[1] == kid:
                return fn(tuple(c[2]))
            if isinstance(c, str) and c[:1] in ('?', '$'):      # kind / mask-identity probes
                return fn(tuple('%s.%d' % (c, i) for i in range(len(shape))))
            raise Untranslatable('entry of a compacted array x[mask] at an index that is not a position of that mask')
        return Buf(('K#%d' % kid,), kind, g)

    def masked_write(self, node, base, lead, mask, value):
        """base[:, .., mask] = value (lead full slices, then a boolean mask over the next axes, the remaining axes follow):
        where mask holds at position p, base[l.., p.., r..] = value[l.., compact index of p, r..] (value broadcast)"""
        bshape_, _, _ = snapshot(base)
        ms, mk, mf = snapshot(mask)
        r = len(ms)
        if mk != 'bool' or bshape_[lead:lead + r] != ms:
            bad(node, 'boolean index does not fit the indexed axes')
        kid = self.mask_key(mask)
        vs, vk, vf = snapshot(value)
        vshape = bshape_[:lead] + ('K#%d' % kid,) + bshape_[lead + r:]
        if bshape(vshape, vs) != vshape:
            bad(node, 'value of shape %r does not fit the selection of shape %r' % (vs, vshape))

        def V(idx):
            full = tuple(idx[:lead]) + (('cidx', kid, tuple(idx[lead:lead + r])),) + tuple(idx[lead + r:])
            return vf(sub_idx(vs, full))
        Vb = Buf(bshape_, vk, V)
        Mb = Buf(bshape_, 'bool', lambda idx: mf(tuple(idx[lead:lead + r])))
        write(node, base, Vb, Mb)

    def bool_index(self, sl, env):
        """the boolean array of a subscript item `m` / `~m`, else None"""
        if isinstance(sl, ast.Name) or (isinstance(sl, ast.UnaryOp) and isinstance(sl.op, ast.Invert)):
            try:
                v = self.eval(sl, env)
            except Untranslatable:
                return None
            if is_array(v) and snapshot(v)[1] == 'bool':
                return v
        return None

    def int_index(self, x, env):
        """the index array of a subscript item `idx` / `tuple(idx)`, else None"""
        if isinstance(x, ast.Name) and isinstance(env.get(x.id), IntIdx):
            return env[x.id]
        if isinstance(x, ast.Call) and dotted(x.func) == ('tuple',) and len(x.args) == 1 and not x.keywords \
                and isinstance(x.args[0], ast.Name) and isinstance(env.get(x.args[0].id), IntIdx):
            return env[x.args[0].id]
        return None

    def row_index(self, sl, env):
        """index expression of a row subscript x[g], x[g + 1], x[0] (g a loop index), else None"""
        if isinstance(sl, ast.Constant) and isinstance(sl.value, int) and not isinstance(sl.value, bool) and sl.value >= 0:
            return str(sl.value)
        if isinstance(sl, ast.Name) and isinstance(env.get(sl.id), LoopIndex):
            return env[sl.id].sym
        if isinstance(sl, ast.BinOp) and isinstance(sl.op, (ast.Add, ast.Sub)) and isinstance(sl.left, ast.Name) \
                and isinstance(env.get(sl.left.id), LoopIndex):
            v = self.eval(sl, env)
            return v.sym if isinstance(v, LoopIndex) else None
        return None

    def row(self, x, g, node):
        """x[g] for a loop index g: a live view of row g (a read-only snapshot if x is one)"""
        if not is_array(x) or not x.shape:
            bad(node, 'index into a scalar / non-array')
        if isinstance(x, View):
            return View(x.buf, x.comp, x.prefix + (g,))
        if x.frozen and not x.name:
            shape, kind, fn = snapshot(x)
            return Buf(shape[1:], kind, (lambda idx: fn((g,) + tuple(idx))), frozen=True)
        return View(x, 'all', (g,))

    def loop_header(self, st, env):
        """(index symbol, size, bindings) of a supported loop: `for g in range(n)`, `for g in util.progressbar_range(n, ..)`
        with n = len(x), and `for j, (a, b) in enumerate(zip_longest(A, B, fillvalue=None))` with A, B of equal length"""
        if st.orelse or not isinstance(st.iter, ast.Call):
            bad(st, 'loop shape')
        d = dotted(st.iter.func)
        g = self.gensym('g')
        if d in (('range',), ('util', 'progressbar_range')) and d[0] not in env and isinstance(st.target, ast.Name):
            if len(st.iter.args) != 1 or (d == ('range',) and st.iter.keywords) or \
                    any(k.arg not in ('show_progressbar', 'desc') for k in st.iter.keywords):
                bad(st.iter, 'loop iterator arguments')
            n = self.eval(st.iter.args[0], env)
            if not isinstance(n, SizeVal):
                bad(st.iter, 'loop bound is not the length of an array')
            return g, n.size, {st.target.id: LoopIndex(g)}
        if d == ('enumerate',) and 'enumerate' not in env and len(st.iter.args) == 1 and not st.iter.keywords:
            z = st.iter.args[0]
            tg = st.target
            if isinstance(z, ast.Call) and dotted(z.func) in (('zip_longest',), ('zip',)) and len(z.args) == 2 \
                    and all(k.arg == 'fillvalue' and isinstance(k.value, ast.Constant) and k.value.value is None
                            for k in z.keywords) \
                    and isinstance(tg, ast.Tuple) and len(tg.elts) == 2 and isinstance(tg.elts[0], ast.Name) \
                    and isinstance(tg.elts[1], ast.Tuple) and len(tg.elts[1].elts) == 2 \
                    and all(isinstance(x, ast.Name) for x in tg.elts[1].elts):
                A, Bv = self.eval(z.args[0], env), self.eval(z.args[1], env)
                if not (is_array(A) and is_array(Bv) and A.shape and Bv.shape and A.shape[0] == Bv.shape[0]):
                    bad(st.iter, 'zipped sequences are not arrays of the same length')
                return g, A.shape[0], {tg.elts[0].id: LoopIndex(g), tg.elts[1].elts[0].id: self.row(A, g, z),
                                       tg.elts[1].elts[1].id: self.row(Bv, g, z)}
        bad(st.iter, 'loop iterator (range(len(x)), util.progressbar_range(len(x), ..), enumerate(zip_longest(A, B)))')

    def exec_for(self, st, env):
        """A loop over g < n is executed ONCE with a symbolic g, in two passes.
        Pass 1 finds the buffers the body writes.  Pass 2 runs the body from a state in which
          * a buffer only ever written through x[g] ("row-wise") keeps its contents in row g and is unreadable in other rows
            (those belong to other iterations); after the loop its row r is what iteration r left there;
          * every other buffer written in the body holds unconstrained values on entry of the iteration (symbols that
            depend on g: whatever earlier iterations left), and is unreadable after the loop;
          * `acc += value` on a buffer that exists outside the loop is not executed but summarised: acc + sum_{g<n} value
            (acc itself is unreadable inside the body and may not be written otherwise);
          * names rebound in the body are unusable after the loop.
        The unconstrained symbols become `junk` parameters of the emitted term, so the Coq theorem (for all junk) also
        proves that no iteration depends on what earlier iterations left in the work buffers."""
        g, size, binds = self.loop_header(st, env)
        pre = list(ALL_BUFS)
        saved = [(b, b.fn) for b in pre]
        saved_fn = dict(saved)

        def run():
            env2 = dict(env)
            env2.update(binds)
            self.loops.append(dict(pre=pre, accs=[]))
            TRACK.append([])
            try:
                self.exec_body(st.body, env2)
            except _Return:
                bad(st, 'return inside a loop')
            finally:
                log = TRACK.pop()
                ctx = self.loops.pop()
            if TRACK:
                TRACK[-1].extend(log)      # the enclosing loop sees these writes too
            return env2, log, ctx['accs']
        # pass 1: discovery
        _, log, accs1 = run()
        for b, fn in saved:
            b.fn = fn
        written, scans = {}, {}
        for b, pfx in log:
            if b in pre:
                written[b] = written.get(b, True) and pfx[:1] == (g,)
                scans[b] = scans.get(b, True) and pfx[:1] == ((g, 1),) and b.kind == 'complex' and len(b.shape) >= 1
        scans = {b: self.gensym('prev') for b, ok in scans.items() if ok}
        for a, _, node in accs1:
            if a in written:
                bad(node, 'an accumulator of the loop is also written otherwise in the loop body')
        # pass 2: from the abstract state
        for b, rowwise in written.items():
            old, kind = b.fn, b.kind
            if b in scans:      # X[g+1] = step(g, X[g]): row g is "the previous row", every other row is unreadable
                b.fn = (lambda nm, kind: lambda idx: _unknown(nm, kind, tuple(idx[1:])) if idx[:1] == (g,) else
                        _unknown('<row of a recurrence other than the previous one>', kind, idx))(scans[b], kind)
            elif rowwise:
                b.fn = (lambda old, kind: lambda idx: old(idx) if idx[:1] == (g,) else
                        _unknown('<row of a buffer filled by another iteration>', kind, idx))(old, kind)
            else:
                nm = self.gensym('havoc')
                b.fn = (lambda nm, kind: lambda idx: _unknown(nm, kind, (g,) + tuple(idx)))(nm, kind)
        accbufs = []
        for a, _, _ in accs1:
            if a not in accbufs:
                accbufs.append(a)
        olds = {a: a.fn for a in accbufs}
        for a in accbufs:
            a.fn = (lambda kind: lambda idx: _unknown('<loop-carried value of an accumulator>', kind, idx))(a.kind)
        env2, _, accs = run()
        for a in accbufs:
            a.fn = olds[a]
        for a, (vs, vk, vf), node in accs:
            if bshape(a.shape, vs) != a.shape or vk == 'bool' or (vk == 'complex' and a.kind == 'real'):
                bad(node, 'accumulated value of shape %r / kind %s does not fit the accumulator' % (vs, vk))

            def new(idx, old=a.fn, vs=vs, vf=vf, kind=a.kind):
                o, v = old(idx), vf(sub_idx(vs, idx))
                if kind == 'real':
                    return real(('add', o.re, ('sum', g, size, v.re)))
                vr, vi = promote(v)
                return cplx(('add', o.re, ('sum', g, size, vr)), ('add', o.im, ('sum', g, size, vi)))
            a.fn = new
        for b, rowwise in written.items():
            if b in scans:
                vs = tuple(self.gensym('v') for _ in b.shape[1:])
                x0 = saved_fn[b](('0',) + vs)
                st1 = b.fn(((g, 1),) + vs)
                b.fn = (lambda x0, st1, vs, prev: lambda idx: cplx(
                    ('scan', 0, g, vs, x0.re, x0.im, prev, st1.re, st1.im, idx[0], tuple(idx[1:])),
                    ('scan', 1, g, vs, x0.re, x0.im, prev, st1.re, st1.im, idx[0], tuple(idx[1:]))))(x0, st1, vs, scans[b])
            elif rowwise:
                b.fn = (lambda fn2: lambda idx: subst_ent(fn2((g,) + tuple(idx[1:])), g, idx[0]))(b.fn)
            else:
                b.fn = (lambda kind: lambda idx: _unknown('<work buffer of a loop, read after the loop>', kind, idx))(b.kind)
        for k in env2:
            if k in env and env2[k] is not env[k]:
                env[k] = Unusable()

    # ---------------------------------------------------------- expressions
    def constant(self, node):
        v = node.value
        if v is None or isinstance(v, (bool, str)):
            return v
        if isinstance(v, int):
            return const_buf(real(('int', v)))
        if isinstance(v, complex) and v.real == 0 and v.imag == int(v.imag) and abs(v.imag) < 2 ** 53:
            return const_buf(cplx(ZERO, ('int', int(v.imag))))
        if isinstance(v, float):
            if v == int(v) and abs(v) < 2 ** 53:
                return const_buf(real(('int', int(v))))
            if id(node) not in self.lit_of_node:
                self.lit_of_node[id(node)] = len(self.lits)
                self.lits.append(v)
            return const_buf(real(('lit', self.lit_of_node[id(node)])))
        bad(node, 'constant')

    def as_array(self, v, node):
        if is_array(v):
            return v
        bad(node, 'array or number expected, found %r' % (v,))

    def eval(self, e, env):
        if isinstance(e, ast.Constant):
            return self.constant(e)
        if isinstance(e, ast.Name):
            if e.id not in env and e.id in ('complex', 'float'):
                return DType('complex' if e.id == 'complex' else 'real')
            if e.id not in env:
                bad(e, 'unbound name')
            return env[e.id]
        if isinstance(e, ast.Attribute):
            d = dotted(e)
            if d is not None and d[0] not in env:
                if d in (('np', 'complex128'), ('np', 'complex_'), ('np', 'cdouble')):
                    return DType('complex')
                if d in (('np', 'float64'), ('np', 'float_'), ('np', 'double')):
                    return DType('real')
                if len(d) == 2 and d[0] == 'np' and d[1] in UF1:
                    return FuncVal(d[1])
                if d == ('np', 'pi'):
                    return const_buf(real(('pi',)))
                bad(e, 'module attribute')
            base = self.eval(e.value, env)
            if isinstance(base, ABuf) and e.attr in base.attrs:
                return base.attrs[e.attr]
            if isinstance(base, Obj):
                if e.attr not in base.attrs:
                    bad(e, 'attribute the calling context does not provide')
                return base.attrs[e.attr]
            if e.attr in ('real', 'imag') and is_array(base):
                if isinstance(base, View):
                    if base.comp == 'all':
                        return View(base.buf, 're' if e.attr == 'real' else 'im', base.prefix)
                    if e.attr == 'real':
                        return base
                    bad(e, 'nested component view')
                if base.frozen:
                    s, k, f = snapshot(View(base, 're' if e.attr == 'real' else 'im'))
                    return Buf(s, k, f, frozen=True)
                return View(base, 're' if e.attr == 'real' else 'im')
            if e.attr == 'T' and is_array(base):
                shape, kind, fn = snapshot(base)
                _vsrc = (base.buf if isinstance(base, View) else base)
                return mark_view(Buf(tuple(reversed(shape)), kind, (lambda idx: fn(tuple(reversed(idx)))), frozen=True), _vsrc)
            if e.attr == 'ndim' and is_array(base):
                return len(base.shape)
            if e.attr == 'shape' and is_array(base):
                return Shape(base.shape)
            if e.attr == 'dtype' and is_array(base):
                return DType(snapshot(base)[1])
            bad(e, 'attribute')
        if isinstance(e, ast.BinOp) and isinstance(e.op, ast.MatMult):
            return self.matmul(e, [self.eval(e.left, env), self.eval(e.right, env)], {})
        if isinstance(e, ast.BinOp) and isinstance(e.op, (ast.Add, ast.Sub)):
            x = self.eval(e.left, env)
            if isinstance(x, (SizeVal, LoopIndex)):
                k = const_int(self.eval(e.right, env))
                if k is None:
                    bad(e, 'arithmetic on a size / loop index (only + - an integer constant)')
                k = k if isinstance(e.op, ast.Add) else -k
                if isinstance(x, LoopIndex):
                    return LoopIndex(idx_shift(x.sym, k))
                sym, off = (x.size, 0) if isinstance(x.size, str) else x.size
                return SizeVal((sym, off + k) if off + k else sym)
            if isinstance(x, IntIdx):
                if const_int(self.eval(e.right, env)) is None:
                    bad(e, 'arithmetic on an index array')
                return x      # values of index arrays are not modelled
        if isinstance(e, ast.BinOp) and isinstance(e.op, ast.Mult) and isinstance(e.left, ast.List):
            k = const_int(self.eval(e.right, env))
            if k is None or k < 0:
                bad(e, 'list repetition count')
            return self.eval(e.left, env) * k
        if isinstance(e, ast.BinOp) and isinstance(e.op, ast.Pow):
            k = const_int(self.eval(e.right, env))
            if k not in (2, 3):
                bad(e, 'power (only ** 2 and ** 3)')
            x = self.as_array(self.eval(e.left, env), e.left)
            sq = elementwise(lambda p: ent_binop('mul', p, p), x)
            return sq if k == 2 else elementwise(lambda p, q: ent_binop('mul', p, q), sq, x)
        if isinstance(e, ast.BinOp):
            op = BINOPS.get(type(e.op).__name__)
            if op is None:
                bad(e, 'binary operator')
            x = self.as_array(self.eval(e.left, env), e.left)
            y = self.as_array(self.eval(e.right, env), e.right)
            return elementwise(lambda p, q: ent_binop(op, p, q), x, y)
        if isinstance(e, ast.BoolOp):
            # operands have no effects here; an operand the executor cannot decide counts as unknown:
            # `and` is False as soon as one operand is False, True if all are True (dually for `or`)
            vals = []
            for x in e.values:
                try:
                    v = self.eval(x, env)
                except Untranslatable:
                    v = None
                vals.append(v if isinstance(v, bool) else None)
            dom = isinstance(e.op, ast.Or)
            if any(v is dom for v in vals):
                return dom
            if all(v is (not dom) for v in vals):
                return not dom
            bad(e, 'boolean expression not decided by the calling context')
        if isinstance(e, ast.UnaryOp) and isinstance(e.op, ast.UAdd):
            return self.as_array(self.eval(e.operand, env), e)
        if isinstance(e, ast.UnaryOp):
            x = self.eval(e.operand, env)
            if isinstance(e.op, ast.USub):
                return elementwise(lambda p: ent_unop('neg', p), self.as_array(x, e))
            if isinstance(e.op, ast.Invert):
                x = self.as_array(x, e)
                if snapshot(x)[1] != 'bool':
                    bad(e, '~ of a non-boolean')
                return elementwise(lambda p: ent_unop('not', p), x)
            if isinstance(e.op, ast.Not) and isinstance(x, bool):
                return not x
            bad(e, 'unary operator')
        if isinstance(e, ast.Compare):
            if len(e.ops) != 1:
                bad(e, 'chained comparison')
            op = type(e.ops[0]).__name__
            x, y = self.eval(e.left, env), self.eval(e.comparators[0], env)
            if op in ('Is', 'IsNot'):
                if x is None or y is None:
                    r = (x is None) and (y is None)
                    return r if op == 'Is' else not r
                bad(e, 'identity test')
            if op in ('Eq', 'NotEq') and isinstance(x, str) and isinstance(y, str):
                return (x == y) if op == 'Eq' else (x != y)
            if op in ('In', 'NotIn') and isinstance(x, str) and isinstance(y, tuple) and all(isinstance(z, str) for z in y):
                return (x in y) if op == 'In' else (x not in y)
            if op in ('In', 'NotIn') and isinstance(x, int) and not isinstance(x, bool) and isinstance(y, tuple) \
                    and all(const_int(z) is not None for z in y):
                return (x in [const_int(z) for z in y]) == (op == 'In')
            if isinstance(x, int) and not isinstance(x, bool) and const_int(y) is not None \
                    and op in ('Eq', 'NotEq', 'Gt', 'Lt', 'GtE', 'LtE'):
                k = const_int(y)
                return {'Eq': x == k, 'NotEq': x != k, 'Gt': x > k, 'Lt': x < k, 'GtE': x >= k, 'LtE': x <= k}[op]
            if op in ('Eq', 'NotEq') and isinstance(x, Shape) and isinstance(y, Shape):
                if x.dims == y.dims:
                    return op == 'Eq'
                bad(e, 'comparison of shapes that are not syntactically equal')
            if isinstance(x, IntIdx) and const_int(y) is not None:
                return OpaqueMask(x)
            if is_array(x) and is_array(y):
                return elementwise(lambda p, q: ent_compare(op, p, q), x, y)
            bad(e, 'comparison')
        if isinstance(e, ast.IfExp):
            t = self.eval(e.test, env)
            if not isinstance(t, bool):
                bad(e.test, 'conditional expression on a value that is not decided by the calling context')
            return self.eval(e.body if t else e.orelse, env)
        if isinstance(e, ast.Tuple):
            out = []
            for x in e.elts:
                if isinstance(x, ast.Starred):
                    v = self.eval(x.value, env)
                    if not isinstance(v, Shape):
                        bad(x, 'starred expression (only *x.shape)')
                    out += [SizeVal(dm) for dm in v.dims]
                else:
                    out.append(self.eval(x, env))
            return tuple(out)
        if isinstance(e, ast.List):
            return [self.eval(x, env) for x in e.elts]
        if isinstance(e, ast.Lambda):
            a = e.args
            if a.vararg or a.kwarg or a.kwonlyargs or a.defaults or a.posonlyargs:
                bad(e, 'lambda (plain positional parameters only)')
            return LocalFn(ast.FunctionDef(name='<lambda>', args=a, body=[ast.Return(value=e.body)], decorator_list=[]), env)
        if isinstance(e, ast.ListComp):
            if len(e.generators) != 1 or e.generators[0].ifs or e.generators[0].is_async:
                bad(e, 'comprehension (one generator, no condition)')
            gen = e.generators[0]
            seq = self.eval(gen.iter, env)
            if not isinstance(seq, (list, tuple)):
                bad(e, 'comprehension over a value that is not a Python sequence')
            out = []
            for item in seq:
                env2 = dict(env)
                if isinstance(gen.target, ast.Name):
                    env2[gen.target.id] = item
                elif isinstance(gen.target, ast.Tuple) and all(isinstance(x, ast.Name) for x in gen.target.elts) \
                        and isinstance(item, (list, tuple)) and len(item) == len(gen.target.elts):
                    env2.update(zip([x.id for x in gen.target.elts], item))
                else:
                    bad(e, 'comprehension target')
                out.append(self.eval(e.elt, env2))
            return out
        if isinstance(e, ast.Subscript):
            return self.eval_subscript(e, env)
        if isinstance(e, ast.Call):
            return self.eval_call(e, env)
        bad(e, 'expression %s' % type(e).__name__)

    def eval_subscript(self, e, env):
        base = self.eval(e.value, env)
        sl = e.slice
        if isinstance(base, Shape):
            if isinstance(sl, ast.Slice) and sl.upper is None and sl.step is None and isinstance(sl.lower, ast.Constant) \
                    and isinstance(sl.lower.value, int) and 0 <= sl.lower.value <= len(base.dims):
                return Shape(base.dims[sl.lower.value:])
            if isinstance(sl, ast.Slice) and sl.lower is None and sl.step is None and isinstance(sl.upper, ast.Constant) \
                    and isinstance(sl.upper.value, int) and 0 <= sl.upper.value <= len(base.dims):
                return Shape(base.dims[:sl.upper.value])
            k = sl.value if isinstance(sl, ast.Constant) else (
                -sl.operand.value if isinstance(sl, ast.UnaryOp) and isinstance(sl.op, ast.USub)
                and isinstance(sl.operand, ast.Constant) else None)
            if isinstance(k, int) and -len(base.dims) <= k < len(base.dims):
                return SizeVal(base.dims[k])
            bad(e, 'shape subscript (only shape[k:] and shape[k])')
        base = self.as_array(base, e)
        m = self.bool_index(sl, env)
        if m is not None:
            return self.compact(base, m, e)
        if isinstance(sl, ast.Name) and isinstance(env.get(sl.id), IntIdx):
            shape, kind, fn = snapshot(base)
            ix = env[sl.id]
            if not shape:
                bad(e, 'index into a scalar')
            return Buf((ix.size,) + shape[1:], kind, (lambda idx: fn((('sel', ix.sel, idx[0]),) + tuple(idx[1:]))))
        if self.row_index(sl, env) is not None:
            return self.row(base, self.row_index(sl, env), e)
        # basic indexing: a tuple of  :  ...  None  a:b (1: / :-1)  g (loop index)  k (integer constant); a read-only view
        items = list(sl.elts) if isinstance(sl, ast.Tuple) else [sl]
        shape, kind, fn = snapshot(base)

        def intval(n):
            if n is None:
                return None
            if isinstance(n, ast.Constant) and isinstance(n.value, int):
                return n.value
            if isinstance(n, ast.UnaryOp) and isinstance(n.op, ast.USub) and isinstance(n.operand, ast.Constant) \
                    and isinstance(n.operand.value, int):
                return -n.operand.value
            bad(e, 'slice bound / index')
        nell = sum(1 for x in items if isinstance(x, ast.Constant) and x.value is Ellipsis)
        nreal = sum(1 for x in items if not (isinstance(x, ast.Constant) and (x.value is None or x.value is Ellipsis)))
        if nell > 1 or nreal > len(shape):
            bad(e, 'subscript')
        plan, ax = [], 0      # per result axis: ('ax', source axis, shift) | ('new',) ; fixed: source axis -> index expression
        fixed = {}
        for x in items:
            if isinstance(x, ast.Constant) and x.value is Ellipsis:
                for _ in range(len(shape) - nreal):
                    plan.append(('ax', ax, 0, shape[ax]))
                    ax += 1
            elif isinstance(x, ast.Constant) and x.value is None:
                plan.append(('new',))
            elif isinstance(x, ast.Slice):
                if x.step is not None:
                    bad(e, 'slice step')
                lo, hi = intval(x.lower), intval(x.upper)
                size = shape[ax]
                sym, off = (size, 0) if isinstance(size, str) else size
                if (lo, hi) == (None, None):
                    plan.append(('ax', ax, 0, size))
                elif (lo, hi) == (1, None):
                    plan.append(('ax', ax, 1, (sym, off - 1) if off - 1 else sym))
                elif (lo, hi) == (None, -1):
                    plan.append(('ax', ax, 0, (sym, off - 1) if off - 1 else sym))
                else:
                    bad(e, 'slice (only :, 1: and :-1)')
                ax += 1
            elif isinstance(x, ast.Name) and isinstance(env.get(x.id), LoopIndex):
                fixed[ax] = env[x.id].sym
                ax += 1
            elif self.int_index(x, env) is not None:
                ix_ = self.int_index(x, env)
                if plan and plan[-1][0] == 'gather':
                    # two adjacent 1-D index arrays of the same length are paired: entry i takes (idx1[i], idx2[i])
                    if plan[-1][3] != ix_.size or len(plan[-1]) != 4:
                        bad(e, 'index arrays of different lengths in one subscript')
                    plan[-1] = plan[-1] + ((ax, ix_.sel),)
                elif any(pl[0] == 'gather' for pl in plan):
                    bad(e, 'separated index arrays in one subscript')
                else:
                    plan.append(('gather', ax, ix_.sel, ix_.size))
                ax += 1
            else:
                k = intval(x)
                if k is None or k < 0:
                    bad(e, 'index (only loop indices and non-negative integer constants)')
                fixed[ax] = str(k)
                ax += 1
        while ax < len(shape):
            plan.append(('ax', ax, 0, shape[ax]))
            ax += 1
        nshape = tuple(1 if pl[0] == 'new' else pl[3] for pl in plan)
        gathers = any(pl[0] == 'gather' for pl in plan)
        nsrc = len(shape)

        def g(idx):
            src = [None] * nsrc
            for pl, i in zip(plan, idx):
                if pl[0] == 'ax':
                    src[pl[1]] = idx_shift(i, pl[2])
                elif pl[0] == 'gather':
                    src[pl[1]] = ('sel', pl[2], i)
                    for ax2, sel2 in pl[4:]:
                        src[ax2] = ('sel', sel2, i)
            for a_, v in fixed.items():
                src[a_] = v
            return fn(tuple(src))
        _vsrc = (base.buf if isinstance(base, View) else base)
        if gathers:       # indexing with an integer array copies
            return Buf(nshape, kind, g)
        return mark_view(Buf(nshape, kind, g, frozen=True), _vsrc)

    def eval_call(self, e, env):
        d = dotted(e.func)
        if d == ('dict',) and 'dict' not in env and not e.args:
            return Opaque()
        if d == ('isinstance',) and 'isinstance' not in env and len(e.args) == 2:
            args = [self.eval(e.args[0], env), None]
        else:
            args = [self.eval(a, env) for a in e.args]
        if any(isinstance(a, ast.Starred) for a in e.args) or any(k.arg is None for k in e.keywords):
            bad(e, 'star arguments')
        kw = {k.arg: self.eval(k.value, env) for k in e.keywords}
        if d == ('isinstance',) and 'isinstance' not in env and len(e.args) == 2 and not kw:
            cls = e.args[1]
            names = [x.id for x in (cls.elts if isinstance(cls, ast.Tuple) else [cls]) if isinstance(x, ast.Name)]
            if not names or set(names) - {'list', 'tuple'}:
                bad(e, 'isinstance (only against list / tuple)')
            return isinstance(args[0], tuple(t for t in (list, tuple) if t.__name__ in names))
        if d == ('tuple',) and 'tuple' not in env and not kw and len(args) == 1 and isinstance(args[0], IntIdx):
            return args[0]      # tuple(idx) of an index array indexes like the array
        if d == ('zip',) and 'zip' not in env and not kw and all(isinstance(a, (list, tuple)) for a in args):
            return list(zip(*args))
        if d is not None and d[0] not in env:
            if d[0] == 'np' and len(d) == 3 and d[2] == 'outer' and d[1] in UF2:
                return self.ufunc_outer(e, UF2[d[1]], args, kw)
            if d[0] == 'np' and len(d) == 2 and d[1] in UF2:
                return self.ufunc(e, lambda p, q: ent_binop(UF2[d[1]], p, q), 2, args, kw)
            if d[0] == 'np' and len(d) == 2 and d[1] in UF1:
                return self.ufunc(e, lambda p: ent_unop(UF1[d[1]], p), 1, args, kw)
            if d == ('np', 'not_equal'):
                return self.ufunc(e, ent_not_equal, 2, args, kw)
            if d == ('np', 'logical_and'):
                return self.ufunc(e, lambda p, q: ent_bool2('and', p, q), 2, args, kw)
            if d == ('np', 'broadcast_to') and len(args) == 2 and not kw and is_array(args[0]) and isinstance(args[1], Shape):
                shp, kind, fn = snapshot(args[0])
                if bshape(args[1].dims, shp) != args[1].dims:
                    bad(e, 'broadcast_to shape')
                return Buf(args[1].dims, kind, (lambda idx: fn(sub_idx(shp, idx))), frozen=True)
            if d == ('np', 'empty'):
                return self.np_empty(e, args, kw)
            if d == ('np', 'diff'):
                if len(args) != 1 or kw:
                    bad(e, 'np.diff arguments')
                shape, kind, fn = snapshot(self.as_array(args[0], e))
                if not shape:
                    bad(e, 'np.diff of a scalar')
                last = shape[-1]
                sym, off = (last, 0) if isinstance(last, str) else last

                def g(idx):
                    return ent_binop('sub', fn(idx[:-1] + (idx_shift(idx[-1], 1),)), fn(idx))
                return Buf(shape[:-1] + ((sym, off - 1),), kind, g)
            if d in self.oracles:
                if kw:
                    bad(e, 'keyword arguments of an oracle call')
                return self.oracles[d](args)
            if d in (('np', 'asarray'), ('np', 'asanyarray')) and len(args) == 1 and not kw and is_array(args[0]):
                return args[0]
            if d == ('dict',) and not args:
                return Opaque()
            if d == ('len',):
                if len(args) != 1 or kw or not is_array(args[0]) or not args[0].shape:
                    bad(e, 'len argument')
                return SizeVal(args[0].shape[0])
            if d in (('np', 'identity'), ('np', 'eye')) and len(args) == 1 and not kw and isinstance(args[0], SizeVal):
                return Buf((args[0].size, args[0].size), 'real', (lambda idx: real(('delta', idx[0], idx[1]))), frozen=True)
            if d == ('np', 'zeros'):
                z = self.np_empty(e, args, kw)
                z.fn = (lambda idx: real(ZERO)) if z.kind == 'real' else (lambda idx: cplx(ZERO, ZERO))
                return z
            if d == ('oe', 'contract_expression'):
                if set(kw) - {'optimize'} or not args or not isinstance(args[0], str) \
                        or not all(isinstance(a, Shape) for a in args[1:]):
                    bad(e, 'contract_expression arguments (literal subscripts and shapes only)')
                return Contraction(args[0])
            if d == ('np', 'matmul'):
                return self.matmul(e, args, kw)
            if d == ('np', 'einsum'):
                return self.einsum(e, args, kw)
            if d == ('oe', 'contract') and set(kw) <= {'backend', 'optimize'}:
                return self.einsum(e, args, {})
            if len(d) == 2 and d[0] in ('util', 'numeric', '_b'):
                return self.call_function({'_b': 'basis'}.get(d[0], d[0]), d[1], args, kw, e)
            if d == ('np', 'polyval') and len(args) == 2 and not kw and isinstance(args[0], list) \
                    and all(is_array(c) and snapshot(c)[0] == () for c in args[0]) and is_array(args[1]):
                # NumPy: y = zeros_like(x); for c in p: y = y * x + c
                y = elementwise(lambda q: real(ZERO), args[1])
                for c in args[0]:
                    y = elementwise(lambda a_, x_, c_: ent_binop('add', ent_binop('mul', a_, x_), c_), y, args[1], c)
                return y
            if d == ('np', 'moveaxis') and len(args) == 1 and set(kw) == {'source', 'destination'} and is_array(args[0]):
                def axes(v):
                    vs_ = v if isinstance(v, list) else [v]
                    out_ = [const_int(x) for x in vs_]
                    if None in out_:
                        bad(e, 'moveaxis axes')
                    return out_
                shape, kind, fn = snapshot(args[0])
                n_ = len(shape)
                src_, dst_ = [a % n_ for a in axes(kw['source'])], [a % n_ for a in axes(kw['destination'])]
                if len(src_) != len(dst_) or len(set(src_)) != len(src_) or len(set(dst_)) != len(dst_):
                    bad(e, 'moveaxis axes')
                order = [a for a in range(n_) if a not in src_]      # NumPy: remaining axes keep their order
                for dst1, src1 in sorted(zip(dst_, src_)):
                    order.insert(dst1, src1)
                base = args[0]
                _vsrc = (base.buf if isinstance(base, View) else base)

                def mv(idx, order=order, fn=fn, n_=n_):
                    srcidx = [None] * n_
                    for pos, ax in enumerate(order):
                        srcidx[ax] = idx[pos]
                    return fn(tuple(srcidx))
                return mark_view(Buf(tuple(shape[a] for a in order), kind, mv, frozen=True), _vsrc)
            if d == ('np', 'tensordot'):
                return self.tensordot(e, args, kw)
            if len(d) == 1 and getattr(self, 'modname', None) and d[0] in self.module(self.modname):
                return self.call_function(self.modname, d[0], args, kw, e)
            bad(e, 'call')
        if d is not None and len(d) == 1 and isinstance(env.get(d[0]), FuncVal):
            if kw or len(args) != 1:
                bad(e, 'call of a ufunc value')
            op1 = UF1[env[d[0]].name]
            return elementwise(lambda p: ent_unop(op1, p), self.as_array(args[0], e))
        if d is not None and len(d) == 1 and isinstance(env.get(d[0]), LocalFn):
            fn = env[d[0]]
            names = [x.arg for x in fn.node.args.args]
            if kw or len(args) != len(names):
                bad(e, 'call of a local function')
            env2 = dict(fn.env)      # closure: the defining scope (by reference semantics is not needed: no rebinding inside)
            env2.update(zip(names, args))
            try:
                self.exec_body(fn.node.body, env2)
            except _Return as r:
                return r.value
            return None
        if d is not None and len(d) == 1 and isinstance(env.get(d[0]), Contraction):
            if set(kw) - {'out'}:
                bad(e, 'contraction keyword arguments')
            res = self.einsum(e, [env[d[0]].subscripts] + args, {})
            if kw.get('out') is None:
                return res
            if not is_array(kw['out']):
                bad(e, 'out= is not an array')
            write(e, kw['out'], res, None)
            return kw['out']
        # method call on a value
        if isinstance(e.func, ast.Attribute):
            base = self.eval(e.func.value, env)
            if isinstance(base, Obj) and e.func.attr in base.methods:
                return base.methods[e.func.attr](args, kw)
            if is_array(base):
                if e.func.attr in ('conj', 'conjugate') and not args and not kw:
                    return elementwise(lambda p: ent_unop('conj', p), base)
                if e.func.attr == 'sum' and not args and set(kw) == {'axis'}:
                    if const_int(kw['axis']) != -1:
                        bad(e, 'sum axis (only axis=-1)')
                    return self.sum_last(e, base)
                if e.func.attr == 'reshape' and len(args) == 1 and isinstance(args[0], Shape) and not kw:
                    return Reshaped(base, args[0])
                if e.func.attr == 'transpose' and args and not kw:
                    perm = [const_int(a) for a in args]
                    shape, kind, fn = snapshot(base)
                    if sorted(p for p in perm if p is not None) != list(range(len(shape))):
                        bad(e, 'transpose permutation')
                    _vsrc = (base.buf if isinstance(base, View) else base)

                    def tr(idx, perm=perm, fn=fn, n=len(shape)):
                        src = [None] * n
                        for pos, ax in enumerate(perm):
                            src[ax] = idx[pos]
                        return fn(tuple(src))
                    return mark_view(Buf(tuple(shape[ax] for ax in perm), kind, tr, frozen=True), _vsrc)
                if e.func.attr == 'swapaxes' and len(args) == 2 and not kw:
                    if sorted(const_int(a) for a in args) != [-2, -1]:
                        bad(e, 'swapaxes (only the last two axes)')
                    shape, kind, fn = snapshot(base)
                    if len(shape) < 2:
                        bad(e, 'swapaxes of an array of rank < 2')
                    _vsrc = (base.buf if isinstance(base, View) else base)
                    return mark_view(Buf(shape[:-2] + (shape[-1], shape[-2]), kind,
                                         (lambda idx: fn(idx[:-2] + (idx[-1], idx[-2]))), frozen=True), _vsrc)
        bad(e, 'call')

    def sum_last(self, node, base):
        shape, kind, fn = snapshot(base)
        if not shape:
            bad(node, 'sum of a scalar')
        if kind == 'bool':
            bad(node, 'sum of booleans')
        v = self.gensym('k')
        size = shape[-1]

        def g(idx):
            x = fn(idx + (v,))
            if kind == 'real':
                return real(('sum', v, size, x.re))
            return cplx(('sum', v, size, x.re), ('sum', v, size, x.im))
        return Buf(shape[:-1], kind, g)

    def einsum(self, node, args, kw):
        if set(kw) - {'optimize'} or len(args) < 2 or not isinstance(args[0], str):
            bad(node, 'einsum arguments (literal subscripts and operands only)')
        spec = args[0].replace(' ', '')
        if '->' not in spec:
            bad(node, 'einsum subscripts (explicit output only)')
        lhs, out = spec.split('->')
        ins = lhs.split(',')
        ops = [snapshot(self.as_array(a, node)) for a in args[1:]]
        if len(ins) != len(ops):
            bad(node, 'einsum operand count')
        if '.' in spec:      # '...' stands for the leading axes of each operand, aligned to the right (broadcast)
            pool = 'ABCDEFGH'
            if any(c in spec for c in pool) or any(x.count('...') > 1 or x.replace('...', '').count('.') for x in ins + [out]):
                bad(node, 'einsum ellipsis')
            nell = [len(shape) - len(sub.replace('...', '')) if '...' in sub else 0 for sub, (shape, _, _) in zip(ins, ops)]
            top = max(nell)
            if min(nell) < 0 or top > len(pool):
                bad(node, 'einsum ellipsis rank')
            ins = [sub.replace('...', pool[top - k:top]) for sub, k in zip(ins, nell)]
            out = out.replace('...', pool[:top])
        size = {}
        for sub, (shape, kind, _) in zip(ins, ops):
            if len(sub) != len(shape) or len(set(sub)) != len(sub) or kind == 'bool':
                bad(node, 'einsum operand rank / repeated letter / dtype')
            for c, s in zip(sub, shape):
                if size.setdefault(c, s) != s:
                    bad(node, 'einsum size mismatch for %s' % c)
        if len(set(out)) != len(out) or any(c not in size for c in out):
            bad(node, 'einsum output subscripts')
        summed = []
        for sub in ins:
            for c in sub:
                if c not in out and c not in summed:
                    summed.append(c)
        bound = {c: self.gensym(c) for c in summed}

        def g(idx):
            val = dict(zip(out, idx))
            val.update(bound)
            prod = None
            for sub, (_, _, fn) in zip(ins, ops):
                x = fn(tuple(val[c] for c in sub))
                prod = x if prod is None else ent_binop('mul', prod, x)
            res = [prod.re] if prod.kind == 'real' else [prod.re, prod.im]
            for c in reversed(summed):
                res = [('sum', bound[c], size[c], r) for r in res]
            return real(res[0]) if prod.kind == 'real' else cplx(res[0], res[1])
        return Buf(tuple(size[c] for c in out), g(tuple('?%d' % i for i in range(len(out)))).kind, g)

    def matmul(self, node, args, kw):
        """np.matmul(a, b[, out=o]) on the last two axes, leading axes broadcast.  NumPy resolves an overlap of `out` with an
        operand by computing into a temporary (ufunc overlap rule), so the operands are read before the write."""
        if len(args) != 2 or set(kw) - {'out'}:
            bad(node, 'matmul arguments')
        (s1, k1, f1), (s2, k2, f2) = snapshot(self.as_array(args[0], node)), snapshot(self.as_array(args[1], node))
        if len(s1) < 2 or len(s2) < 2 or s1[-1] != s2[-2] or 'bool' in (k1, k2):
            bad(node, 'matmul operand shapes %r %r' % (s1, s2))
        l1, l2 = s1[:-2], s2[:-2]
        lead = bshape(l1, l2)
        v, size = self.gensym('k'), s1[-1]

        def g(idx):
            li, i, j = idx[:-2], idx[-2], idx[-1]
            p = ent_binop('mul', f1(sub_idx(l1, li) + (i, v)), f2(sub_idx(l2, li) + (v, j)))
            if p.kind == 'real':
                return real(('sum', v, size, p.re))
            return cplx(('sum', v, size, p.re), ('sum', v, size, p.im))
        shape = lead + (s1[-2], s2[-1])
        res = Buf(shape, g(tuple('?%d' % i for i in range(len(shape)))).kind, g)
        out = kw.get('out')
        if out is None:
            return res
        if not is_array(out):
            bad(node, 'out= is not an array')
        write(node, out, res, None)
        return out

    def tensordot(self, node, args, kw):
        """np.tensordot(a, b, axes=[(i1, i2, ..), (j1, j2, ..)]): sum over the paired axes (in the order given), result
        axes = remaining axes of a followed by the remaining axes of b"""
        if len(args) != 2 or set(kw) != {'axes'} or not isinstance(kw['axes'], list) or len(kw['axes']) != 2:
            bad(node, 'tensordot arguments')
        (sa, ka, fa), (sb, kb, fb) = snapshot(self.as_array(args[0], node)), snapshot(self.as_array(args[1], node))
        axa, axb = [[const_int(x) for x in (t if isinstance(t, tuple) else (t,))] for t in kw['axes']]
        if len(axa) != len(axb) or None in axa + axb or 'bool' in (ka, kb):
            bad(node, 'tensordot axes')
        axa, axb = [x % len(sa) for x in axa], [x % len(sb) for x in axb]
        if len(set(axa)) != len(axa) or len(set(axb)) != len(axb) or any(sa[p] != sb[q] for p, q in zip(axa, axb)):
            bad(node, 'tensordot axes / sizes')
        fra, frb = [i for i in range(len(sa)) if i not in axa], [i for i in range(len(sb)) if i not in axb]
        vs = [self.gensym('s') for _ in axa]

        def g(idx):
            ia, ib = [None] * len(sa), [None] * len(sb)
            for p, i in zip(fra, idx[:len(fra)]):
                ia[p] = i
            for q, i in zip(frb, idx[len(fra):]):
                ib[q] = i
            for p, q, v in zip(axa, axb, vs):
                ia[p], ib[q] = v, v
            pr = ent_binop('mul', fa(tuple(ia)), fb(tuple(ib)))
            res = [pr.re] if pr.kind == 'real' else [pr.re, pr.im]
            for p, v in reversed(list(zip(axa, vs))):
                res = [('sum', v, sa[p], r) for r in res]
            return real(res[0]) if pr.kind == 'real' else cplx(res[0], res[1])
        shape = tuple(sa[i] for i in fra) + tuple(sb[i] for i in frb)
        return Buf(shape, g(tuple('?%d' % i for i in range(len(shape)))).kind, g)

    def np_empty(self, node, args, kw):
        if len(args) == 1 and isinstance(args[0], SizeVal):
            args = [Shape((args[0].size,))]
        if len(args) == 1 and isinstance(args[0], tuple) and all(isinstance(x, SizeVal) for x in args[0]):
            args = [Shape(tuple(x.size for x in args[0]))]
        if len(args) != 1 or not isinstance(args[0], Shape) or set(kw) - {'dtype'}:
            bad(node, 'np.empty arguments')
        kind = 'real'
        if 'dtype' in kw:
            if not isinstance(kw['dtype'], DType):
                bad(node, 'np.empty dtype')
            kind = kw['dtype'].kind
        name = self.gensym('empty')

        def g(idx):
            if kind == 'real':
                return real(('elem', name, 're', idx))
            return cplx(('elem', name, 're', idx), ('elem', name, 'im', idx))
        return Buf(args[0].dims, kind, g, name=name)

    def ufunc_outer(self, node, op, args, kw):
        if len(args) != 2 or set(kw) - {'out'}:
            bad(node, 'outer arguments')
        (s1, k1, f1), (s2, k2, f2) = snapshot(self.as_array(args[0], node)), snapshot(self.as_array(args[1], node))
        n1 = len(s1)

        def g(idx):
            return ent_binop(op, f1(idx[:n1]), f2(idx[n1:]))
        res = Buf(s1 + s2, g(tuple('?%d' % i for i in range(len(s1 + s2)))).kind, g)
        out = kw.get('out')
        if out is None:
            return res
        if not is_array(out):
            bad(node, 'out= is not an array')
        ob = out.buf if isinstance(out, View) else out
        for a in args:
            ab = a.buf if isinstance(a, View) else a
            if ab is ob:
                bad(node, 'outer with out= aliasing an operand')
        write(node, out, res, None)
        return out

    def ufunc(self, node, f, arity, args, kw):
        if len(args) != arity or set(kw) - {'out', 'where'}:
            bad(node, 'ufunc arguments')
        res = elementwise(f, *[self.as_array(a, node) for a in args])
        out, where = kw.get('out'), kw.get('where', True)
        if where is True:
            where = None
        elif not is_array(where):
            bad(node, 'where= is not an array')
        if out is None:
            if where is not None:      # NumPy allocates the result: the entries outside the mask are uninitialised
                rs, rk, rf = snapshot(res)
                ws, wk, wf = snapshot(where)
                if wk != 'bool' or bshape(rs, ws) != rs or rk == 'bool':
                    bad(node, 'where= mask does not fit the result')
                nm = self.gensym('empty')
                return Buf(rs, rk, lambda idx: ent_ite(wf(sub_idx(ws, idx)).b, rf(idx), _unknown(nm, rk, idx)))
            return res
        if not is_array(out):
            bad(node, 'out= is not an array')
        write(node, out, res, where)
        return out


def const_int(v):
    """Python int of a constant scalar value (e.g. the -1 of axis=-1), else None"""
    if not is_array(v):
        return None
    s, k, f = snapshot(v)
    if s != () or k != 'real':
        return None
    e = f(()).re
    if e[0] == 'int':
        return e[1]
    if e[0] == 'neg' and e[1][0] == 'int':
        return -e[1][1]
    return None


def dotted(node):
    parts = []
    while isinstance(node, ast.Attribute):
        parts.append(node.attr)
        node = node.value
    if isinstance(node, ast.Name):
        parts.append(node.id)
        return tuple(reversed(parts))
    return None


def idx_shift(i, k):
    if k == 0:
        return i
    if isinstance(i, tuple) and i[0] in ('sel', 'cidx'):
        raise Untranslatable('shifted gather / compact index')
    sym, off = (i, 0) if isinstance(i, str) else i
    return (sym, off + k) if off + k else sym


# ------------------------------------------------------------------ emission
class Emitter:
    def __init__(self, leaf, litnames):
        self.leaf, self.litnames = leaf, litnames
        self.apps = set()         # names of other translated kernels this term applies

    def idx(self, i):
        if isinstance(i, tuple) and i[0] == 'cidx':
            raise Untranslatable('a compact index x[mask] escaped into the result')
        if isinstance(i, tuple) and i[0] == 'sel':
            return '(%s %s)' % (i[1], self.idx(i[2]))
        sym, off = (i, 0) if isinstance(i, str) else i
        if sym.startswith('?'):
            raise Untranslatable('internal: probe index escaped')
        if off == 0:
            return sym
        if off == 1:
            return '(S %s)' % sym
        if off > 1:
            return '(%s + %d)%%nat' % (sym, off)
        raise Untranslatable('negative index offset')

    def size(self, s):
        sym, off = (s, 0) if isinstance(s, str) else s
        if off == 0:
            return sym
        if off == -1:
            return '(Nat.pred %s)' % sym
        if off < 0:
            return '(%s - %d)%%nat' % (sym, -off)
        raise Untranslatable('positive size offset')

    def expr(self, e, names):
        if e in names:
            return names[e]
        op = e[0]
        if op == 'var':
            return e[1]
        if op == 'int':
            k = e[1]
            return {0: '(o0 Op)', 1: '(o1 Op)', 2: '(o2 Op)'}.get(k, '(odya Op %s 0)' % zlit(k))
        if op == 'pi':
            return '(opi Op)'
        if op == 'lit':
            if e[1] >= len(self.litnames):
                raise Untranslatable('more non-integer literals than the spec names (%d)' % len(self.litnames))
            return self.litnames[e[1]]
        if op == 'elem' and e[1].startswith('prev') and e[1][4:].isdigit():      # the previous row inside a recurrence
            return '(%s (%s %s))' % ('fst' if e[2] == 're' else 'snd', e[1], ' '.join(self.idx(x) for x in e[3]))
        if op == 'elem':
            s = self.leaf(e[1], e[2], e[3], self)
            if s is None:
                raise Untranslatable('result depends on %s.%s%r, which the spec does not provide (uninitialised '
                                     'memory or an unexpected index pattern)' % (e[1], e[2], list(e[3])))
            return s
        if op in ('add', 'sub', 'mul', 'div'):
            return '(o%s Op %s %s)' % (op, self.expr(e[1], names), self.expr(e[2], names))
        if op in ('neg', 'abs', 'cos', 'sin', 'sqrt'):
            return '(o%s Op %s)' % (op, self.expr(e[1], names))
        if op == 'ite':
            return self.ite(e[1], self.expr(e[2], names), self.expr(e[3], names), names)
        if op == 'sum':
            return '(sumn Op %s (fun %s => %s))' % (self.size(e[2]), e[1], self.expr(e[3], names))
        if op == 'delta':
            return '(if Nat.eqb %s %s then (o1 Op) else (o0 Op))' % (self.idx(e[1]), self.idx(e[2]))
        if op == 'scan':      # component e[1] of row e[9] of a buffer filled by the recurrence X[0] = X0, X[g+1] = step(g, X[g])
            _, comp, g, vs, x0r, x0i, prev, str_, sti, row, rest = e
            ty = ' -> '.join(['nat'] * len(vs) + ['C (T:=T)'])
            return '(%s (nat_rect (fun _ => %s) (fun %s => (%s, %s)) (fun %s %s %s => (%s, %s)) %s %s))' % (
                'fst' if comp == 0 else 'snd', ty, ' '.join(vs), self.expr(x0r, names), self.expr(x0i, names),
                g, prev, ' '.join(vs), self.expr(str_, names), self.expr(sti, names), self.idx(row),
                ' '.join(self.idx(x) for x in rest))
        if op == 'app':       # component e[2] of another translated kernel e[1] applied to arguments
            self.apps.add(e[1])
            parts = []
            for a in e[3]:
                if a[0] == 'x':
                    parts.append(self.expr(a[1], names))
                elif a[0] == 'n':
                    parts.append(self.size(a[1]))
                elif a[0] == 'i':
                    parts.append(self.idx(a[1]))
                elif a[0] == 'lam':
                    body = self.expr(a[2], names) if a[3] is None else '(%s, %s)' % (self.expr(a[2], names), self.expr(a[3], names))
                    parts.append('(fun %s => %s)' % (' '.join(a[1]), body))
                else:
                    raise Untranslatable('internal: application argument')
            return '(%s (%s %s))' % ('fst' if e[2] == 0 else 'snd', e[1], ' '.join(parts))     # same Section: Op is implicit
        raise Untranslatable('internal: expression %r' % (op,))

    def ite(self, c, x, y, names):
        """oite over a boolean expression built from comparisons with not / and (Ops has no connectives)"""
        if c not in names:
            if c[0] == 'not':
                return self.ite(c[1], y, x, names)
            if c[0] == 'and':      # if a and b then x else y  =  if a then (if b then x else y) else y
                return self.ite(c[1], self.ite(c[2], x, y, names), y, names)
        return '(oite Op %s %s %s)' % (self.bexpr(c, names), x, y)

    def bexpr(self, c, names):
        if c in names:
            return names[c]
        if c[0] == 'gt':
            return '(ogt Op %s %s)' % (self.expr(c[1], names), self.expr(c[2], names))
        raise Untranslatable('internal: boolean %r' % (c[0],))

    def body(self, roots):
        """Coq term for the tuple of roots with let-bindings for shared subterms (only if no binder occurs)"""
        count, order, has_sum = {}, [], [False]

        def visit(e):
            if not isinstance(e, tuple) or e[0] in ('var', 'int', 'lit', 'elem', 'pi'):
                return
            if e[0] == 'not':
                visit(e[1])
                return
            if e[0] == 'and':
                visit(e[1])
                visit(e[2])
                return
            if e[0] in ('sum', 'app', 'scan'):
                has_sum[0] = True
            count[e] = count.get(e, 0) + 1
            if count[e] > 1:
                return
            for x in (e[3:] if e[0] == 'sum' else () if e[0] in ('app', 'scan', 'delta') else e[1:]):
                if isinstance(x, tuple):
                    visit(x)
            order.append(e)
        for r in roots:
            visit(r)
        names, lets = {}, []
        if not has_sum[0]:
            for e in order:
                if count[e] > 1:
                    s = self.bexpr(e, names) if e[0] == 'gt' else self.expr(e, names)
                    nm = '%s%d' % ('b' if e[0] == 'gt' else 't', len(lets) + 1)
                    lets.append('  let %s := %s in' % (nm, s))
                    names[e] = nm
        outs = [self.expr(r, names) for r in roots]
        return lets, outs


# ------------------------------------------------------------------ kernel specifications (calling contexts)
def real_param(name, shape):
    return Buf(shape, 'real', (lambda idx: real(('elem', name, 're', idx))), name=name, readonly=True)


def complex_param(name, shape, readonly=True):
    return Buf(shape, 'complex', (lambda idx: cplx(('elem', name, 're', idx), ('elem', name, 'im', idx))),
               name=name, readonly=readonly)


def scalar_param(name):
    return Buf((), 'real', (lambda idx: real(('var', name))), name=name, frozen=True)


def k_foi(it):
    """numeric._first_order_integral(E, eigvals, dt, exp_buf, int_buf) as called by calculate_control_matrix_from_scratch /
    calculate_noise_operators_from_scratch: E real (no,), eigvals real (d,), dt real scalar, exp_buf and int_buf complex
    (no, d, d) with arbitrary contents.  Entry [o][m][n] of the returned array."""
    shp = ('no', 'd', 'd')
    args = [real_param('E', ('no',)), real_param('eigvals', ('d',)), scalar_param('dt'),
            complex_param('exp_buf', shp, readonly=False), complex_param('int_buf', shp, readonly=False)]
    res = it.call_function('numeric', '_first_order_integral', args, {})
    table = {('E', 're', ('o',)): 'w', ('eigvals', 're', ('m',)): 'evm', ('eigvals', 're', ('n',)): 'evn',
             ('exp_buf', 're', ('o', 'm', 'n')): 'ge_re', ('exp_buf', 'im', ('o', 'm', 'n')): 'ge_im',
             ('int_buf', 're', ('o', 'm', 'n')): 'gi_re', ('int_buf', 'im', ('o', 'm', 'n')): 'gi_im'}
    return dict(result=res, shape=shp, index=('o', 'm', 'n'), kind='complex',
                leaf=lambda a, c, i, em: table.get((a, c, i)),
                binders='(thr w evm evn dt ge_re ge_im gi_re gi_im : T)', litnames=['thr'],
                closed_binders='(w evm evn dt ge_re ge_im gi_re gi_im : T)',
                closed_args='w evm evn dt ge_re ge_im gi_re gi_im')


def k_trapz(it):
    """util.integrate(f, x) with f, x real of shape (n,): the returned scalar."""
    args = [real_param('f', ('n',)), real_param('x', ('n',))]
    res = it.call_function('util', 'integrate', args, {})

    def leaf(a, c, i, em):
        if c == 're' and a in ('f', 'x') and len(i) == 1:
            return '(%s %s)' % (a, em.idx(i[0]))
    return dict(result=res, shape=(), index=(), kind='real', leaf=leaf,
                binders='(n : nat) (f x : nat -> T)', litnames=[])


def k_cexp(it):
    """util.cexp(x) (out=None, where=True) with x real of shape (n,): entry [i] of the result."""
    res = it.call_function('util', 'cexp', [real_param('x', ('n',))], {})
    return dict(result=res, shape=('n',), index=('i',), kind='complex',
                leaf=lambda a, c, i, em: 'x' if (a, c, i) == ('x', 're', ('i',)) else None,
                binders='(x : T)', litnames=[])


def k_tbu(it):
    """numeric._transform_by_unitary(unitary, oper, out) as called in the segment loops: unitary complex (d, d), oper a stack
    of operators complex (nb, d, d), out complex (nb, d, d) with arbitrary contents.  Entry [b][i][j]."""
    args = [complex_param('unitary', ('d', 'd')), complex_param('oper', ('nb', 'd', 'd')),
            complex_param('out', ('nb', 'd', 'd'), readonly=False)]
    res = it.call_function('numeric', '_transform_by_unitary', args, {})

    def leaf(a, c, i, em):
        p = 'fst' if c == 're' else 'snd'
        if a == 'unitary' and len(i) == 2:
            return '(%s (U %s %s))' % (p, em.idx(i[0]), em.idx(i[1]))
        if a == 'oper' and len(i) == 3:
            return '(%s (A %s %s %s))' % (p, em.idx(i[0]), em.idx(i[1]), em.idx(i[2]))
    return dict(result=res, shape=('nb', 'd', 'd'), index=('b', 'i', 'j'), kind='complex', leaf=leaf,
                binders='(d : nat) (U : nat -> nat -> C (T:=T)) (A : nat -> nat -> nat -> C (T:=T)) (b i j : nat)',
                litnames=[])


def k_tbu_alloc(it):
    """numeric._transform_by_unitary(unitary, oper) with out=None (np.empty allocated inside): unitary, oper complex (d, d)."""
    args = [complex_param('unitary', ('d', 'd')), complex_param('oper', ('d', 'd'))]
    res = it.call_function('numeric', '_transform_by_unitary', args, {})

    def leaf(a, c, i, em):
        p = 'fst' if c == 're' else 'snd'
        if a in ('unitary', 'oper') and len(i) == 2:
            return '(%s (%s %s %s))' % (p, 'U' if a == 'unitary' else 'A', em.idx(i[0]), em.idx(i[1]))
    return dict(result=res, shape=('d', 'd'), index=('i', 'j'), kind='complex', leaf=leaf,
                binders='(d : nat) (U A : nat -> nat -> C (T:=T)) (i j : nat)', litnames=[])


def k_cm_atomic(it):
    """numeric.calculate_control_matrix_from_atomic(phases, control_matrix_atomic, propagators_liouville, which='total'):
    phases complex (ng, no), control_matrix_atomic complex (ng, na, nk, no), propagators_liouville real (ng, nk, nk).
    Entry [a][k][o]."""
    args = [complex_param('phases', ('ng', 'no')), complex_param('control_matrix_atomic', ('ng', 'na', 'nk', 'no')),
            real_param('propagators_liouville', ('ng', 'nk', 'nk')), False, 'total']
    res = it.call_function('numeric', 'calculate_control_matrix_from_atomic', args, {})

    def leaf(a, c, i, em):
        p = 'fst' if c == 're' else 'snd'
        ix = ' '.join(em.idx(x) for x in i)
        if a == 'phases' and len(i) == 2:
            return '(%s (P %s))' % (p, ix)
        if a == 'control_matrix_atomic' and len(i) == 4:
            return '(%s (Bs %s))' % (p, ix)
        if a == 'propagators_liouville' and len(i) == 3 and c == 're':
            return '(L %s)' % ix
    return dict(result=res, shape=('na', 'nk', 'no'), index=('a', 'k', 'o'), kind='complex', leaf=leaf,
                binders='(ng nk : nat) (P : nat -> nat -> C (T:=T)) (Bs : nat -> nat -> nat -> nat -> C (T:=T)) '
                        '(L : nat -> nat -> nat -> T) (a k o : nat)', litnames=[])


def k_cm_atomic_pc(it):
    """numeric.calculate_control_matrix_from_atomic(phases, control_matrix_atomic, propagators_liouville, which='correlations'):
    same arguments as for 'total'; the loop fills row g of the result.  Entry [g][a][k][o]."""
    args = [complex_param('phases', ('ng', 'no')), complex_param('control_matrix_atomic', ('ng', 'na', 'nk', 'no')),
            real_param('propagators_liouville', ('ng', 'nk', 'nk')), False, 'correlations']
    res = it.call_function('numeric', 'calculate_control_matrix_from_atomic', args, {})

    def leaf(a, c, i, em):
        p = 'fst' if c == 're' else 'snd'
        ix = ' '.join(em.idx(x) for x in i)
        if a == 'phases' and len(i) == 2:
            return '(%s (P %s))' % (p, ix)
        if a == 'control_matrix_atomic' and len(i) == 4:
            return '(%s (Bs %s))' % (p, ix)
        if a == 'propagators_liouville' and len(i) == 3 and c == 're':
            return '(L %s)' % ix
    return dict(result=res, shape=('ng', 'na', 'nk', 'no'), index=('g', 'a', 'k', 'o'), kind='complex', leaf=leaf,
                binders='(nk : nat) (P : nat -> nat -> C (T:=T)) (Bs : nat -> nat -> nat -> nat -> C (T:=T)) '
                        '(L : nat -> nat -> nat -> T) (g a k o : nat)', litnames=[])


def _pc_leaf(a, c, i, em):
    if a == 'control_matrix' and len(i) == 4:
        return '(%s (Bpc %s))' % ('fst' if c == 're' else 'snd', ' '.join(em.idx(x) for x in i))


def k_pc_ff(it):
    """numeric.calculate_pulse_correlation_filter_function(control_matrix, 'fidelity'), control_matrix complex
    (ng, na, nk, no): entry [g][h][a][b][o] ('gako,hbko->ghabo' on (conj B, B)); the ndim guard is a precondition."""
    res = it.call_function('numeric', 'calculate_pulse_correlation_filter_function',
                           [complex_param('control_matrix', ('ng', 'na', 'nk', 'no')), 'fidelity'], {})
    return dict(result=res, shape=('ng', 'ng', 'na', 'na', 'no'), index=('g', 'h', 'a', 'b', 'o'), kind='complex',
                leaf=_pc_leaf, binders='(nk : nat) (Bpc : nat -> nat -> nat -> nat -> C (T:=T)) (g h a b o : nat)', litnames=[])


def k_pc_ffgen(it):
    """The same with which='generalized': entry [g][h][a][b][k][l][o] ('gako,hblo->ghabklo')."""
    res = it.call_function('numeric', 'calculate_pulse_correlation_filter_function',
                           [complex_param('control_matrix', ('ng', 'na', 'nk', 'no')), 'generalized'], {})
    return dict(result=res, shape=('ng', 'ng', 'na', 'na', 'nk', 'nk', 'no'), index=('g', 'h', 'a', 'b', 'k', 'l', 'o'),
                kind='complex', leaf=_pc_leaf,
                binders='(Bpc : nat -> nat -> nat -> nat -> C (T:=T)) (g h a b k l o : nat)', litnames=[])


def _cm_leaf(a, c, i, em):
    if a == 'control_matrix' and len(i) == 3:
        return '(%s (Bm %s %s %s))' % ('fst' if c == 're' else 'snd', em.idx(i[0]), em.idx(i[1]), em.idx(i[2]))


def k_ff(it):
    """numeric.calculate_filter_function(control_matrix, which='fidelity'), control_matrix complex (na, nk, no):
    entry [a][b][o]."""
    res = it.call_function('numeric', 'calculate_filter_function',
                           [complex_param('control_matrix', ('na', 'nk', 'no')), 'fidelity'], {})
    return dict(result=res, shape=('na', 'na', 'no'), index=('a', 'b', 'o'), kind='complex', leaf=_cm_leaf,
                binders='(nk : nat) (Bm : nat -> nat -> nat -> C (T:=T)) (a b o : nat)', litnames=[])


def k_ffgen(it):
    """numeric.calculate_filter_function(control_matrix, which='generalized'): entry [a][b][k][l][o]."""
    res = it.call_function('numeric', 'calculate_filter_function',
                           [complex_param('control_matrix', ('na', 'nk', 'no')), 'generalized'], {})
    return dict(result=res, shape=('na', 'na', 'nk', 'nk', 'no'), index=('a', 'b', 'k', 'l', 'o'), kind='complex',
                leaf=_cm_leaf, binders='(Bm : nat -> nat -> nat -> C (T:=T)) (a b k l o : nat)', litnames=[])


def k_diag_piecewise(it):
    """numeric.diagonalize(hamiltonian, dt), the array bound to `piecewise` (einsum 'lij,jl,lkj->lik' on eigvecs,
    cexp(-dt * eigvals.T), eigvecs.conj()); nla.eigh is an oracle returning eigvals real (ng, d), eigvecs complex
    (ng, d, d); dt real (ng,).  Entry [l][i][k].  The cumulative-product loop after it is NOT translated."""
    it.oracles[('nla', 'eigh')] = lambda args: (real_param('eigvals', ('ng', 'd')), complex_param('eigvecs', ('ng', 'd', 'd')))
    it.probe = 'piecewise'
    res = it.call_function('numeric', 'diagonalize', [complex_param('hamiltonian', ('ng', 'd', 'd')), real_param('dt', ('ng',))], {})

    def leaf(a, c, i, em):
        ix = ' '.join(em.idx(x) for x in i)
        if a == 'dt' and len(i) == 1 and c == 're':
            return '(dt %s)' % ix
        if a == 'eigvals' and len(i) == 2 and c == 're':
            return '(ev %s)' % ix
        if a == 'eigvecs' and len(i) == 3:
            return '(%s (V %s))' % ('fst' if c == 're' else 'snd', ix)
    return dict(result=res, shape=('ng', 'd', 'd'), index=('l', 'i', 'k'), kind='complex', leaf=leaf,
                binders='(d : nat) (dt : nat -> T) (ev : nat -> nat -> T) (V : nat -> nat -> nat -> C (T:=T)) (l i k : nat)',
                litnames=[])


def k_arb_t(it):
    """PulseSequence.propagator_at_arb_t(self, t): self.t real (ng+1,), self.eigvals real (ng, d), self.eigvecs complex
    (ng, d, d), self.propagators complex (ng+1, d, d) are the cached data (self.diagonalize() is a no-op here), t real
    (nt,); the index array idx = np.searchsorted(self.t, t) - 1 clipped at 0 is NOT modelled: entry [l][i][c] of the
    result as a function of the selected segment `sel l` (the selection is the subject of C02_searchsorted_spec)."""
    me = Obj(dict(t=real_param('self_t', (('ng', 1),)), eigvals=real_param('eigvals', ('ng', 'd')),
                  eigvecs=complex_param('eigvecs', ('ng', 'd', 'd')),
                  propagators=complex_param('propagators', (('ng', 1), 'd', 'd'))), noop_methods=('diagonalize',))
    it.oracles[('np', 'searchsorted')] = lambda args: IntIdx('nt', 'sel')
    res = it.call_function('pulse_sequence', 'PulseSequence.propagator_at_arb_t', [me, real_param('t', ('nt',))], {})

    def leaf(a, c, i, em):
        ix = ' '.join(em.idx(x) for x in i)
        if c == 're' and (a, len(i)) in (('t', 1), ('self_t', 1), ('eigvals', 2)):
            return '(%s %s)' % ({'t': 'tq', 'self_t': 'ts', 'eigvals': 'ev'}[a], ix)
        if (a, len(i)) in (('eigvecs', 3), ('propagators', 3)):
            return '(%s (%s %s))' % ('fst' if c == 're' else 'snd', 'V' if a == 'eigvecs' else 'Q', ix)
    return dict(result=res, shape=('nt', 'd', 'd'), index=('l', 'i', 'c'), kind='complex', leaf=leaf,
                binders='(d : nat) (sel : nat -> nat) (tq ts : nat -> T) (ev : nat -> nat -> T) '
                        '(V Q : nat -> nat -> nat -> C (T:=T)) (l i c : nat)', litnames=[])


def k_diag_cumulative(it):
    """numeric.diagonalize(hamiltonian, dt), third element of the returned tuple: cumulative[0] = identity,
    cumulative[i+1] = piecewise[i] @ cumulative[i] (a recurrence, emitted with nat_rect); nla.eigh is an oracle returning
    eigvals real (ng, d), eigvecs complex (ng, d, d); dt real (ng,).  Entry [r][a][b] (meaningful for r <= ng)."""
    it.oracles[('nla', 'eigh')] = lambda args: (real_param('eigvals', ('ng', 'd')), complex_param('eigvecs', ('ng', 'd', 'd')))
    res = it.call_function('numeric', 'diagonalize', [complex_param('hamiltonian', ('ng', 'd', 'd')), real_param('dt', ('ng',))], {})
    if not (isinstance(res, tuple) and len(res) == 3):
        raise Untranslatable('diagonalize does not return a triple')

    def leaf(a, c, i, em):
        ix = ' '.join(em.idx(x) for x in i)
        if a == 'dt' and len(i) == 1 and c == 're':
            return '(dt %s)' % ix
        if a == 'eigvals' and len(i) == 2 and c == 're':
            return '(ev %s)' % ix
        if a == 'eigvecs' and len(i) == 3:
            return '(%s (V %s))' % ('fst' if c == 're' else 'snd', ix)
    return dict(result=res[2], shape=(('ng', 1), 'd', 'd'), index=('r', 'a', 'b'), kind='complex', leaf=leaf,
                binders='(d : nat) (dt : nat -> T) (ev : nat -> nat -> T) (V : nat -> nat -> nat -> C (T:=T)) (r a b : nat)',
                litnames=[])


def _k_cumulant(it, second):
    basis = Obj(dict(shape=Shape(('N', 'd', 'd')), btype='custom',
                     four_element_traces=complex_param('traces', ('N', 'N', 'N', 'N'))))
    pulse = Obj(dict(basis=basis))
    kw = dict(pulse=pulse, which='total', second_order=second,
              decay_amplitudes=real_param('decay_amplitudes', ('na', 'nb', 'N', 'N')))
    if second:
        kw['frequency_shifts'] = real_param('frequency_shifts', ('na', 'nb', 'N', 'N'))
    res = it.call_function('numeric', 'calculate_cumulant_function', [], kw)

    def leaf(a, c, i, em):
        ix = ' '.join(em.idx(x) for x in i)
        if c == 're' and len(i) == 4 and a in ('decay_amplitudes', 'frequency_shifts'):
            return '(%s %s)' % ('G' if a == 'decay_amplitudes' else 'D', ix)
        if a == 'traces' and len(i) == 4:
            return '(%s (Tr %s))' % ('fst' if c == 're' else 'snd', ix)
    return dict(result=res, shape=('na', 'nb', 'N', 'N'), index=('a', 'b', 'i', 'j'), kind='real', leaf=leaf,
                binders='(N : nat) (G%s : nat -> nat -> nat -> nat -> T) (Tr : nat -> nat -> nat -> nat -> C (T:=T)) (a b i j : nat)'
                        % (' D' if second else ''), litnames=[])


def k_cumulant(it):
    """numeric.calculate_cumulant_function(pulse, which='total', second_order=False, decay_amplitudes=G), general branch
    (pulse.basis.btype is neither 'Pauli' nor 'GGM'): G real (na, nb, N, N), pulse.basis.four_element_traces complex
    (N, N, N, N).  Entry [a][b][i][j] of the real array returned."""
    return _k_cumulant(it, False)


def k_cumulant2(it):
    """The same with second_order=True and frequency_shifts=D real (na, nb, N, N)."""
    return _k_cumulant(it, True)


def k_liouville(it):
    """superoperator.liouville_representation(U, basis), generic path: U complex (d, d); basis complex (n, d, d) with
    btype 'custom' (so neither ggm_expand shortcut applies) and isherm True (so basis.expand takes the real part).
    Entry [i][j] of the real array returned."""
    basis = ABuf(dict(btype='custom', isherm=True), ('n', 'd', 'd'), 'complex',
                 (lambda idx: cplx(('elem', 'basis', 're', tuple(idx)), ('elem', 'basis', 'im', tuple(idx)))),
                 name='basis', readonly=True)
    res = it.call_function('superoperator', 'liouville_representation', [complex_param('U', ('d', 'd')), basis], {})

    def leaf(a, c, i, em):
        ix = ' '.join(em.idx(x) for x in i)
        if (a, len(i)) in (('U', 2), ('basis', 3)):
            return '(%s (%s %s))' % ('fst' if c == 're' else 'snd', 'U' if a == 'U' else 'Cb', ix)
    return dict(result=res, shape=('n', 'n'), index=('i', 'j'), kind='real', leaf=leaf,
                binders='(d : nat) (U : nat -> nat -> C (T:=T)) (Cb : nat -> nat -> nat -> C (T:=T)) (i j : nat)', litnames=[])


def k_choi(it):
    """superoperator.liouville_to_choi(superoperator, basis): superoperator real (n, n), basis complex (n, d, d): entry
    [a][c][b][e] of einsum('...ij,jba,icd->...acbd', superoperator, basis, basis) BEFORE .reshape(superoperator.shape)
    (the row-major merge (a, c) -> a*d + c, (b, e) -> b*d + e is written out in the model, not by the translator)."""
    res = it.call_function('superoperator', 'liouville_to_choi',
                           [real_param('superoperator', ('n', 'n')), complex_param('basis', ('n', 'd', 'd'))], {})
    if not isinstance(res, Reshaped) or res.shape.dims != ('n', 'n'):
        raise Untranslatable('liouville_to_choi does not end with .reshape(superoperator.shape)')

    def leaf(a, c, i, em):
        ix = ' '.join(em.idx(x) for x in i)
        if (a, len(i), c) == ('superoperator', 2, 're'):
            return '(S %s)' % ix
        if (a, len(i)) == ('basis', 3):
            return '(%s (Cb %s))' % ('fst' if c == 're' else 'snd', ix)
    return dict(result=res.value, shape=('d', 'd', 'd', 'd'), index=('a', 'c', 'b', 'e'), kind='complex', leaf=leaf,
                binders='(n : nat) (S : nat -> nat -> T) (Cb : nat -> nat -> nat -> C (T:=T)) (a c b e : nat)', litnames=[])


def _k_integrand(it, ndim):
    spshape = {1: ('no',), 2: ('ni', 'no'), 3: ('ni', 'ni', 'no')}[ndim]
    # util.parse_spectrum validates the spectrum and broadcasts it to the selection: an oracle returning that array
    it.oracles[('util', 'parse_spectrum')] = lambda args: complex_param('spectrum', spshape)
    res = it.call_function('numeric', '_get_integrand',
                           [complex_param('spectrum_in', spshape), real_param('omega', ('no',)), IntIdx('ni', 'sel'),
                            'total', 'generalized'], {'control_matrix': complex_param('control_matrix', ('na', 'nk', 'no'))})

    def leaf(a, c, i, em):
        ix = ' '.join(em.idx(x) for x in i)
        if (a, len(i)) in (('spectrum', ndim), ('control_matrix', 3)):
            return '(%s (%s %s))' % ('fst' if c == 're' else 'snd', 'Sp' if a == 'spectrum' else 'Bm', ix)
    sty = ' -> '.join(['nat'] * ndim + ['C (T:=T)'])
    if ndim == 3:
        return dict(result=res, shape=('ni', 'ni', 'nk', 'nk', 'no'), index=('i', 'j', 'k', 'l', 'o'), kind='real', leaf=leaf,
                    binders='(sel : nat -> nat) (Sp : %s) (Bm : nat -> nat -> nat -> C (T:=T)) (i j k l o : nat)' % sty, litnames=[])
    return dict(result=res, shape=('ni', 'nk', 'nk', 'no'), index=('i', 'k', 'l', 'o'), kind='real', leaf=leaf,
                binders='(sel : nat -> nat) (Sp : %s) (Bm : nat -> nat -> nat -> C (T:=T)) (i k l o : nat)' % sty, litnames=[])


def _k_decay(it, ndim):
    spshape = {1: ('no',), 2: ('ni', 'no'), 3: ('ni', 'ni', 'no')}[ndim]
    it.oracles[('util', 'parse_spectrum')] = lambda args: complex_param('spectrum', spshape)
    it.oracles[('util', 'get_indices_from_identifiers')] = lambda args: IntIdx('ni', 'sel')
    cm = complex_param('control_matrix', ('na', 'nk', 'no'))
    pulse = Obj(dict(n_oper_identifiers=Opaque()),
                methods=dict(is_cached=lambda a, k: False, get_control_matrix=lambda a, k: cm))
    res = it.call_function('numeric', 'calculate_decay_amplitudes',
                           [pulse, complex_param('spectrum_in', spshape), real_param('omega', ('no',))], {})

    def leaf(a, c, i, em):
        ix = ' '.join(em.idx(x) for x in i)
        if (a, len(i), c) == ('omega', 1, 're'):
            return '(om %s)' % ix
        if (a, len(i)) in (('spectrum', ndim), ('control_matrix', 3)):
            return '(%s (%s %s))' % ('fst' if c == 're' else 'snd', 'Sp' if a == 'spectrum' else 'Bm', ix)
    sty = ' -> '.join(['nat'] * ndim + ['C (T:=T)'])
    lead = ('ni', 'ni') if ndim == 3 else ('ni',)
    return dict(result=res, shape=lead + ('nk', 'nk'), index=(('i', 'j') if ndim == 3 else ('i',)) + ('k', 'l'), kind='real',
                leaf=leaf, binders='(no : nat) (sel : nat -> nat) (om : nat -> T) (Sp : %s) (Bm : nat -> nat -> nat -> C (T:=T)) '
                                   '(%s k l : nat)' % (sty, 'i j' if ndim == 3 else 'i'), litnames=[])


def k_decay_ff2(it):
    """numeric.calculate_decay_amplitudes(pulse, spectrum, omega), which='total', direct path, WITH a cached generalized filter
    function (pulse.is_cached('filter_function_gen') True): pulse.get_filter_function(omega, which='generalized') = F complex
    (na, na, nk, nk, no), spectrum per operator (ndim 2).  Entry [i][k][l]."""
    it.oracles[('util', 'parse_spectrum')] = lambda args: complex_param('spectrum', ('ni', 'no'))
    it.oracles[('util', 'get_indices_from_identifiers')] = lambda args: IntIdx('ni', 'sel')
    F = complex_param('filter_function', ('na', 'na', 'nk', 'nk', 'no'))
    pulse = Obj(dict(n_oper_identifiers=Opaque()),
                methods=dict(is_cached=lambda a, k: True, get_filter_function=lambda a, k: F))
    res = it.call_function('numeric', 'calculate_decay_amplitudes',
                           [pulse, complex_param('spectrum_in', ('ni', 'no')), real_param('omega', ('no',))], {})

    def leaf(a, c, i, em):
        ix = ' '.join(em.idx(x) for x in i)
        if (a, len(i), c) == ('omega', 1, 're'):
            return '(om %s)' % ix
        if (a, len(i)) in (('spectrum', 2), ('filter_function', 5)):
            return '(%s (%s %s))' % ('fst' if c == 're' else 'snd', 'Sp' if a == 'spectrum' else 'F', ix)
    return dict(result=res, shape=('ni', 'nk', 'nk'), index=('i', 'k', 'l'), kind='real', leaf=leaf,
                binders='(no : nat) (sel : nat -> nat) (om : nat -> T) (Sp : nat -> nat -> C (T:=T)) '
                        '(F : nat -> nat -> nat -> nat -> nat -> C (T:=T)) (i k l : nat)', litnames=[])


def k_decay2(it):
    """numeric.calculate_decay_amplitudes(pulse, spectrum, omega), which='total', direct path (memory_parsimonious=False), no
    cached generalized filter function (pulse.is_cached(..) False): pulse.get_control_matrix(..) = B complex (na, nk, no),
    spectrum per operator (ndim 2); util.get_indices_from_identifiers and util.parse_spectrum are oracles.
    Entry [i][k][l] of util.integrate(_get_integrand(..), omega) / (2 pi)."""
    return _k_decay(it, 2)


def k_decay3(it):
    """The same with a cross-spectral matrix (ndim 3): entry [i][j][k][l]."""
    return _k_decay(it, 3)


def k_deriv_integral(it):
    """gradient._derivative_integral(E, eigvals, dt, out): E real (no,), eigvals real (d,), dt real scalar, out complex
    (no, d, d, d, d) with arbitrary contents.  Entry [o][p][q][m][n] of the returned array (w = E[o], evp .. evn the
    eigenvalues); the compacting selections dE[~mask_dE], out[:, mask_dE] = .. are followed position by position."""
    args = [real_param('E', ('no',)), real_param('eigvals', ('d',)), scalar_param('dt'),
            complex_param('junk1', ('no', 'd', 'd', 'd', 'd'), readonly=False)]
    res = it.call_function('gradient', '_derivative_integral', args, {})
    table = {('E', 're', ('o',)): 'w', ('eigvals', 're', ('p',)): 'evp', ('eigvals', 're', ('q',)): 'evq',
             ('eigvals', 're', ('m',)): 'evm', ('eigvals', 're', ('n',)): 'evn'}
    return dict(result=res, shape=('no', 'd', 'd', 'd', 'd'), index=('o', 'p', 'q', 'm', 'n'), kind='complex',
                leaf=lambda a, c, i, em: table.get((a, c, i)) or junk_leaf(a, c, i, em),
                binders='(thr_dE thr_s w evp evq evm evn dt : T) (junk : nat -> list nat -> T) (o p q m n : nat)',
                litnames=['thr_dE', 'thr_s'])


def k_ffd(it):
    """gradient.calculate_filter_function_derivative(ctrlmat, ctrlmat_deriv): ctrlmat complex (na, nk, no), ctrlmat_deriv
    complex (nh, no, nt, na, nk): entry [a][t][h][o] of 2 * einsum('ako,hotak->atho', ctrlmat.conj(), ctrlmat_deriv).real."""
    res = it.call_function('gradient', 'calculate_filter_function_derivative',
                           [complex_param('ctrlmat', ('na', 'nk', 'no')),
                            complex_param('ctrlmat_deriv', ('nh', 'no', 'nt', 'na', 'nk'))], {})

    def leaf(a, c, i, em):
        if (a, len(i)) in (('ctrlmat', 3), ('ctrlmat_deriv', 5)):
            return '(%s (%s %s))' % ('fst' if c == 're' else 'snd', 'Bm' if a == 'ctrlmat' else 'dB',
                                     ' '.join(em.idx(x) for x in i))
    return dict(result=res, shape=('na', 'nt', 'nh', 'no'), index=('a', 't', 'h', 'o'), kind='real', leaf=leaf,
                binders='(nk : nat) (Bm : nat -> nat -> nat -> C (T:=T)) (dB : nat -> nat -> nat -> nat -> nat -> C (T:=T)) '
                        '(a t h o : nat)', litnames=[])


def _k_integrand_ff(it, ndim):
    spshape = {1: ('no',), 2: ('ni', 'no')}[ndim]
    it.oracles[('util', 'parse_spectrum')] = lambda args: complex_param('spectrum', spshape)
    res = it.call_function('numeric', '_get_integrand',
                           [complex_param('spectrum_in', spshape), real_param('omega', ('no',)), IntIdx('ni', 'sel'),
                            'total', 'generalized'],
                           {'filter_function': complex_param('filter_function', ('na', 'na', 'nk', 'nk', 'no'))})

    def leaf(a, c, i, em):
        ix = ' '.join(em.idx(x) for x in i)
        if (a, len(i)) in (('spectrum', ndim), ('filter_function', 5)):
            return '(%s (%s %s))' % ('fst' if c == 're' else 'snd', 'Sp' if a == 'spectrum' else 'F', ix)
    sty = ' -> '.join(['nat'] * ndim + ['C (T:=T)'])
    return dict(result=res, shape=('ni', 'nk', 'nk', 'no'), index=('i', 'k', 'l', 'o'), kind='real', leaf=leaf,
                binders='(sel : nat -> nat) (Sp : %s) (F : nat -> nat -> nat -> nat -> nat -> C (T:=T)) (i k l o : nat)' % sty,
                litnames=[])


def k_integrand_ff1(it):
    """numeric._get_integrand(spectrum, omega, idx, 'total', 'generalized', filter_function=F): filter-function path, F complex
    (na, na, nk, nk, no), one spectrum for all operators (ndim 1): moveaxis, F[..., tuple(idx), tuple(idx), :] * spectrum,
    moveaxis back, .real.  Entry [i][k][l][o]."""
    return _k_integrand_ff(it, 1)


def k_integrand_ff2(it):
    """The same with one spectrum per selected operator (ndim 2)."""
    return _k_integrand_ff(it, 2)


def k_integrand1(it):
    """numeric._get_integrand(spectrum, omega, idx, 'total', 'generalized', control_matrix=B): control-matrix path, one
    spectrum for all operators (ndim 1, complex (no,)); B complex (na, nk, no); idx an index array (values: sel).
    util.parse_spectrum is an oracle.  Entry [i][k][l][o] of integrand.real ('...ko,...o,...lo->...klo')."""
    return _k_integrand(it, 1)


def k_integrand2(it):
    """The same with one spectrum per selected operator (ndim 2, complex (ni, no))."""
    return _k_integrand(it, 2)


def k_integrand3(it):
    """The same with a cross-spectral matrix (ndim 3, complex (ni, ni, no)): entry [i][j][k][l][o] ('ako,abo,blo->abklo')."""
    return _k_integrand(it, 3)


# ---- summaries: inside a larger kernel, a call of an already translated kernel is emitted as an application of ITS
# translated definition (whose own tie is a separate theorem) instead of being inlined again.  The summary states how
# the actual arguments instantiate the callee's calling context; it refuses (falls back to an error) anything else.
def sum_foi(it, args, kw, node):
    """_first_order_integral(E, eigvals, dt, exp_buf, int_buf) -> foi_entry_src_at_lits (context of k_foi)"""
    if kw or len(args) != 5 or not all(is_array(a) for a in args):
        bad(node, '_first_order_integral arguments')
    (sE, kE, fE), (sv, kv, fv), (sd, kd, fd) = [snapshot(a) for a in args[:3]]
    (se, ke, fe), (si, ki, fi) = snapshot(args[3]), snapshot(args[4])
    shape = sE + sv + sv
    if len(sE) != 1 or len(sv) != 1 or sd != () or (kE, kv, kd) != ('real',) * 3 or se != shape or si != shape \
            or (ke, ki) != ('complex', 'complex'):
        bad(node, '_first_order_integral called outside the context of its translated kernel')

    def res(idx):
        o, m, n = idx
        a = tuple(('x', x) for x in (fE((o,)).re, fv((m,)).re, fv((n,)).re, fd(()).re,
                                     fe(idx).re, fe(idx).im, fi(idx).re, fi(idx).im))
        return cplx(('app', 'foi_entry_src_at_lits', 0, a), ('app', 'foi_entry_src_at_lits', 1, a))
    write(node, args[3], Buf(shape, 'complex', lambda idx: _unknown('<exp_buf after _first_order_integral>', 'complex', idx)), None)
    write(node, args[4], Buf(shape, 'complex', res), None)
    return args[4]


def sum_tbu(it, args, kw, node):
    """_transform_by_unitary(unitary, oper[, out]) -> tbu_alloc_entry_src on the last two axes, leading axes broadcast"""
    args = list(args)
    out = kw.get('out') if 'out' in kw else (args[2] if len(args) > 2 else None)
    if set(kw) - {'out'} or len(args) not in (2, 3) or (len(args) == 3 and 'out' in kw):
        bad(node, '_transform_by_unitary arguments')
    (su, ku, fu), (so, ko, fo) = snapshot(it.as_array(args[0], node)), snapshot(it.as_array(args[1], node))
    if len(su) < 2 or len(so) < 2 or su[-2] != su[-1] or so[-2:] != su[-2:] or 'bool' in (ku, ko):
        bad(node, '_transform_by_unitary called outside the context of its translated kernel')
    d, lu, lo = su[-1], su[:-2], so[:-2]
    lead = bshape(lu, lo)
    shape = lead + (d, d)

    def res(idx):
        li, i, j = tuple(idx[:-2]), idx[-2], idx[-1]
        a_, b_ = it.gensym('a'), it.gensym('b')
        ur, ui = promote(fu(sub_idx(lu, li) + (a_, b_)))
        ar, ai = promote(fo(sub_idx(lo, li) + (a_, b_)))
        a = (('n', d), ('lam', (a_, b_), ur, ui), ('lam', (a_, b_), ar, ai), ('i', i), ('i', j))
        return cplx(('app', 'tbu_alloc_entry_src', 0, a), ('app', 'tbu_alloc_entry_src', 1, a))
    val = Buf(shape, 'complex', res)
    if out is None:
        return val
    write(node, it.as_array(out, node), val, None)
    return out


def sum_prop(it, args, kw, node):
    """_propagate_eigenvectors(propagators, eigvecs) -> propagate_eigvecs_entry_src (context of k_prop_eigvecs)"""
    if kw or len(args) != 2:
        bad(node, '_propagate_eigenvectors arguments')
    (sq, kq, fq), (sv, kv, fv) = snapshot(it.as_array(args[0], node)), snapshot(it.as_array(args[1], node))
    if len(sq) != 3 or sq != sv or sq[1] != sq[2] or (kq, kv) != ('complex', 'complex'):
        bad(node, '_propagate_eigenvectors called outside the context of its translated kernel')

    def res(idx):
        g_, a_, b_ = it.gensym('g'), it.gensym('a'), it.gensym('b')
        q, v = fq((g_, a_, b_)), fv((g_, a_, b_))
        a = (('n', sq[1]), ('lam', (g_, a_, b_), q.re, q.im), ('lam', (g_, a_, b_), v.re, v.im),
             ('i', idx[0]), ('i', idx[1]), ('i', idx[2]))
        return cplx(('app', 'propagate_eigvecs_entry_src', 0, a), ('app', 'propagate_eigvecs_entry_src', 1, a))
    return Buf(sq, 'complex', res)


def k_prop_eigvecs(it):
    """numeric._propagate_eigenvectors(propagators, eigvecs) with both complex (ng, d, d): entry [g][a][b] of
    propagators.transpose(0, 2, 1).conj() @ eigvecs."""
    res = it.call_function('numeric', '_propagate_eigenvectors',
                           [complex_param('propagators', ('ng', 'd', 'd')), complex_param('eigvecs', ('ng', 'd', 'd'))], {})

    def leaf(a, c, i, em):
        if a in ('propagators', 'eigvecs') and len(i) == 3:
            return '(%s (%s %s))' % ('fst' if c == 're' else 'snd', 'Q' if a == 'propagators' else 'V',
                                     ' '.join(em.idx(x) for x in i))
    return dict(result=res, shape=('ng', 'd', 'd'), index=('g', 'a', 'b'), kind='complex', leaf=leaf,
                binders='(d : nat) (Q V : nat -> nat -> nat -> C (T:=T)) (g a b : nat)', litnames=[])


def k_transform_hamiltonian(it):
    """numeric._transform_hamiltonian(eigvecs, opers, coeffs): eigvecs complex (ng, d, d), opers complex (nj, d, d), coeffs
    real (nj, ng): entry [j][g][m][n] (the call of _transform_by_unitary appears as an application of its kernel)."""
    it.summaries = {('numeric', '_transform_by_unitary'): sum_tbu}
    res = it.call_function('numeric', '_transform_hamiltonian',
                           [complex_param('eigvecs', ('ng', 'd', 'd')), complex_param('opers', ('nj', 'd', 'd')),
                            real_param('coeffs', ('nj', 'ng'))], {})

    def leaf(a, c, i, em):
        ix = ' '.join(em.idx(x) for x in i)
        if (a, len(i), c) == ('coeffs', 2, 're'):
            return '(sc %s)' % ix
        if (a, len(i)) in (('eigvecs', 3), ('opers', 3)):
            return '(%s (%s %s))' % ('fst' if c == 're' else 'snd', 'V' if a == 'eigvecs' else 'N', ix)
    return dict(result=res, shape=('nj', 'ng', 'd', 'd'), index=('j', 'g', 'm', 'n'), kind='complex', leaf=leaf,
                binders='(d : nat) (V N : nat -> nat -> nat -> C (T:=T)) (sc : nat -> nat -> T) (j g m n : nat)', litnames=[])


def junk_leaf(a, c, i, em):
    """uninitialised memory (np.empty, work buffers passed in: names junk<N>) / state left by earlier iterations (havoc<N>):
    arbitrary values, a parameter `junk : nat -> list nat -> T` of the emitted term"""
    for pfx in ('empty', 'havoc', 'junk'):
        if a.startswith(pfx) and a[len(pfx):].isdigit():
            flat = []
            for x in i:      # a compact index x[mask] stands for the position it came from
                flat += list(x[2]) if isinstance(x, tuple) and x[0] == 'cidx' else [x]
            return '(junk %d (%s))' % (2 * int(a[len(pfx):]) + (c == 'im'), ' :: '.join([em.idx(x) for x in flat] + ['nil']))


def bool_junk(name, shape):
    return Buf(shape, 'bool', (lambda idx: boolean(('gt', ('elem', name, 're', tuple(idx)), ZERO))), name=name)


def k_soi(it):
    """numeric._second_order_integral(E, eigvals, dt, int_buf, frc_bufs, dE_bufs, exp_buf, msk_bufs) as called by
    calculate_second_order_filter_function: E real (no,), eigvals real (d,), dt real scalar, int_buf complex (no,d,d,d,d),
    frc_bufs = (complex (no,d,d), complex (d,d,d,d)), dE_bufs = (real (d,d,d,d), real (no,d,d), real (no,d,d)), exp_buf
    complex (no,d,d), msk_bufs = two boolean (no,d,d,d,d) rows, all work buffers with arbitrary contents (junk).
    Entry [o][i][j][m][n]."""
    n5, n3, d4 = ('no', 'd', 'd', 'd', 'd'), ('no', 'd', 'd'), ('d', 'd', 'd', 'd')
    args = [real_param('E', ('no',)), real_param('eigvals', ('d',)), scalar_param('dt'),
            complex_param('junk1', n5, readonly=False),
            (complex_param('junk2', n3, readonly=False), complex_param('junk3', d4, readonly=False)),
            (Buf(d4, 'real', (lambda idx: real(('elem', 'junk4', 're', tuple(idx)))), name='junk4'),
             Buf(n3, 'real', (lambda idx: real(('elem', 'junk5', 're', tuple(idx)))), name='junk5'),
             Buf(n3, 'real', (lambda idx: real(('elem', 'junk6', 're', tuple(idx)))), name='junk6')),
            complex_param('junk7', n3, readonly=False), (bool_junk('junk8', n5), bool_junk('junk9', n5))]
    res = it.call_function('numeric', '_second_order_integral', args, {})
    table = {('E', 're', ('o',)): 'w', ('eigvals', 're', ('i',)): 'evi', ('eigvals', 're', ('j',)): 'evj',
             ('eigvals', 're', ('m',)): 'evm', ('eigvals', 're', ('n',)): 'evn'}
    return dict(result=res, shape=n5, index=('o', 'i', 'j', 'm', 'n'), kind='complex',
                leaf=lambda a, c, i, em: table.get((a, c, i)) or junk_leaf(a, c, i, em),
                binders='(thr_EdE thr_dEE w evi evj evm evn dt : T) (junk : nat -> list nat -> T) (o i j m n : nat)',
                litnames=['thr_EdE', 'thr_dEE'])


def _k_cm_scratch(it, cache):
    it.summaries = {('numeric', '_first_order_integral'): sum_foi, ('numeric', '_transform_by_unitary'): sum_tbu,
                    ('numeric', '_propagate_eigenvectors'): sum_prop}
    args = [real_param('eigvals', ('ng', 'd')), complex_param('eigvecs', ('ng', 'd', 'd')),
            complex_param('propagators', (('ng', 1), 'd', 'd')), real_param('omega', ('no',)),
            complex_param('basis', ('nk', 'd', 'd')), complex_param('n_opers', ('nj', 'd', 'd')),
            real_param('n_coeffs', ('nj', 'ng')), real_param('dt', ('ng',)), real_param('t', (('ng', 1),)), False, cache, None]
    res = it.call_function('numeric', 'calculate_control_matrix_from_scratch', args, {})
    if isinstance(res, tuple) and len(res) == 2:
        res = res[0]
    names = {('eigvals', 2): 'ev', ('omega', 1): 'om', ('n_coeffs', 2): 'sc', ('dt', 1): 'dt', ('t', 1): 'ts'}
    cnames = {('eigvecs', 3): 'V', ('propagators', 3): 'Q', ('basis', 3): 'Cb', ('n_opers', 3): 'N'}

    def leaf(a, c, i, em):
        ix = ' '.join(em.idx(x) for x in i)
        if c == 're' and (a, len(i)) in names:
            return '(%s %s)' % (names[(a, len(i))], ix)
        if (a, len(i)) in cnames:
            return '(%s (%s %s))' % ('fst' if c == 're' else 'snd', cnames[(a, len(i))], ix)
        return junk_leaf(a, c, i, em)
    return dict(result=res, shape=('nj', 'nk', 'no'), index=('j', 'k', 'o'), kind='complex', leaf=leaf,
                binders='(d ng : nat) (ev : nat -> nat -> T) (V Q Cb N : nat -> nat -> nat -> C (T:=T)) (om dt ts : nat -> T) '
                        '(sc : nat -> nat -> T) (junk : nat -> list nat -> T) (j k o : nat)', litnames=[])


def k_cm_scratch(it):
    """numeric.calculate_control_matrix_from_scratch(eigvals, eigvecs, propagators, omega, basis, n_opers, n_coeffs, dt, t,
    cache_intermediates=False): eigvals real (ng, d), eigvecs complex (ng, d, d), propagators complex (ng+1, d, d), omega
    real (no,), basis complex (nk, d, d), n_opers complex (nj, d, d), n_coeffs real (nj, ng), dt real (ng,), t real
    (ng+1,), out=None.  Entry [j][k][o]; calls of _first_order_integral / _transform_by_unitary appear as applications
    of their translated kernels; `junk` stands for uninitialised memory and for what earlier iterations left in the work
    buffers."""
    return _k_cm_scratch(it, False)


def k_cm_scratch_cache(it):
    """The same with cache_intermediates=True (work buffers are rows of the caches; first element of the returned pair)."""
    return _k_cm_scratch(it, True)


# (name of the emitted definition, calling context, owning property)
KERNELS = [('foi_entry_src', k_foi, 'C01'), ('trapz_src', k_trapz, 'C01'), ('cexp_entry_src', k_cexp, 'C01'),
           ('ff_entry_src', k_ff, 'C01'), ('ffgen_entry_src', k_ffgen, 'C01'),
           ('tbu_entry_src', k_tbu, 'C01'), ('tbu_alloc_entry_src', k_tbu_alloc, 'C01'),
           ('cm_atomic_entry_src', k_cm_atomic, 'C01'),
           ('propagate_eigvecs_entry_src', k_prop_eigvecs, 'C01'), ('transform_hamiltonian_entry_src', k_transform_hamiltonian, 'C01'),
           ('cm_scratch_entry_src', k_cm_scratch, 'C01'), ('cm_scratch_cache_entry_src', k_cm_scratch_cache, 'C01'),
           ('cm_atomic_pc_entry_src', k_cm_atomic_pc, 'C03'), ('pc_ff_entry_src', k_pc_ff, 'C03'), ('pc_ffgen_entry_src', k_pc_ffgen, 'C03'),
           ('diag_piecewise_src', k_diag_piecewise, 'C02'), ('diag_cumulative_src', k_diag_cumulative, 'C02'), ('arb_t_entry_src', k_arb_t, 'C02'),
           ('soi_entry_src', k_soi, 'C10'), ('deriv_integral_entry_src', k_deriv_integral, 'C11'), ('ffd_entry_src', k_ffd, 'C11'),
           ('liouville_entry_src', k_liouville, 'C15'), ('choi_entry_src', k_choi, 'C15'),
           ('integrand1_src', k_integrand1, 'C08'), ('integrand2_src', k_integrand2, 'C08'), ('integrand3_src', k_integrand3, 'C08'),
           ('integrand_ff1_src', k_integrand_ff1, 'C08'), ('integrand_ff2_src', k_integrand_ff2, 'C08'),
           ('decay2_src', k_decay2, 'C08'), ('decay_ff2_src', k_decay_ff2, 'C08'), ('decay3_src', k_decay3, 'C08'),
           ('cumulant_general_src', k_cumulant, 'C09'), ('cumulant_general2_src', k_cumulant2, 'C09')]


def translate(name, spec_fn):
    del ALL_BUFS[:]
    del TRACK[:]
    it = Interp()
    sp = spec_fn(it)
    res = sp['result']
    if not is_array(res):
        raise Untranslatable('the kernel does not return an array')
    shape, kind, fn = snapshot(res)
    if shape != tuple(sp['shape']):
        raise Untranslatable('result has shape %r, the calling context expects %r' % (shape, sp['shape']))
    if kind != sp['kind']:
        raise Untranslatable('result is %s, the calling context expects %s' % (kind, sp['kind']))
    ent = fn(tuple(sp['index']))
    roots = [ent.re] if kind == 'real' else [ent.re, ent.im]
    if len(it.lits) != len(sp['litnames']):
        raise Untranslatable('%d non-integer literal(s) in the kernel, the spec names %d' % (len(it.lits), len(sp['litnames'])))
    em = Emitter(sp['leaf'], sp['litnames'])
    lets, outs = em.body(roots)
    ty = 'T' if kind == 'real' else 'C (T:=T)'
    lines = ['Definition %s %s : %s :=' % (name, sp['binders'], ty)] + lets
    lines.append('  %s.' % (outs[0] if kind == 'real' else '(%s,\n   %s)' % (outs[0], outs[1])))
    tail = []
    for nm, v in zip(sp['litnames'], it.lits):
        m, e = dyadic(v)
        tail.append('Definition %s_lit_%s : Z * Z := (%s, %s)%%Z.   (* %r *)' % (name, nm, zlit(m), zlit(e), v))
    if sp['litnames'] and 'closed_binders' in sp:
        lits = ' '.join('(odya Op %s %s)' % tuple(zlit(z) for z in dyadic(v)) for v in it.lits)
        lines.append('Definition %s_at_lits %s : %s :=\n  %s %s %s.' % (name, sp['closed_binders'], ty, name, lits,
                                                                     sp['closed_args']))
    return lines, tail, em.apps


HEADER = '''(* GENERATED by tools/kernel_extract.py from the current sources -- do not edit.
   Each <kernel>_src is the symbolic value of one entry of the array the Python kernel returns (see the
   docstring of tools/kernel_extract.py for the supported subset and the semantics); Proofs/KernelTie.v proves
   that it equals the hand-written model function. *)
From Coq Require Import ZArith List String.
From FF Require Import Base.Ops.
Import ListNotations.
Local Open Scope string_scope.
'''


def generate():
    results = []
    for name, spec_fn, owner in KERNELS:
        try:
            lines, tail, apps = translate(name, spec_fn)
            results.append([name, spec_fn, owner, lines, tail, apps, []])
        except Untranslatable as ex:
            results.append([name, spec_fn, owner, None, [], set(), ['%s: %s' % (name, ex)]])
        except Exception as ex:      # noqa -- fail closed: an internal error of the translator never leaves a stale term
            results.append([name, spec_fn, owner, None, [], set(), ['%s: translator error %r' % (name, ex)]])
    # a kernel that applies the translated term of another kernel is translated only if that one is
    changed = True
    while changed:
        changed = False
        ok = set()
        for r in results:
            if r[3] is not None:
                ok.update((r[0], r[0] + '_at_lits'))
        for r in results:
            missing = sorted(a for a in r[5] if a not in ok)
            if r[3] is not None and missing:
                r[3], r[4], r[6] = None, [], ['%s: applies the kernel %s, which is not translated' % (r[0], missing[0])]
                changed = True
    secs, tails, untr = [], [], []
    for name, spec_fn, owner, lines, tail, _, msg in results:
        if lines is not None:
            secs.append('(* %s *)\n' % ' '.join((spec_fn.__doc__ or '').split()) + '\n'.join(lines))
            tails += tail
        untr.append((name, msg, owner))
    text = HEADER + '\n'
    for name, msg, _ in untr:
        text += 'Definition %s_untranslated : list string := [%s].\n' % (name, '; '.join(coq_string(m) for m in msg))
    owners = []
    for _, _, o in untr:
        if o not in owners:
            owners.append(o)
    for o in owners:      # one list per owning property: an untranslatable kernel breaks only its owner's obligations
        text += 'Definition kernel_untranslated_%s : list string :=\n  %s.\n' % (
            o, ' ++ '.join(n + '_untranslated' for n, _, oo in untr if oo == o))
    text += 'Definition kernel_untranslated : list string :=\n  %s.\n\n' % ' ++ '.join('kernel_untranslated_' + o for o in owners)
    text += 'Section Kernels.\nContext {T B : Type} (Op : Ops T B).\n\n' + '\n\n'.join(secs) + '\n\nEnd Kernels.\n\n'
    text += '\n'.join(tails) + '\n'
    by_owner = {}
    for _, ms, o in untr:
        by_owner.setdefault(o, []).extend(ms)
    return text, [m for _, ms, _ in untr for m in ms], by_owner


def coq_string(s):
    s = ''.join(ch if 32 <= ord(ch) < 127 else '?' for ch in s)
    return '"' + s.replace('"', '""') + '"'


def main(out=OUT, verbose=False):
    text, problems, by_owner = generate()
    if not os.path.exists(out) or open(out).read() != text:
        tmp = out + '.tmp%d' % os.getpid()
        with open(tmp, 'w') as f:
            f.write(text)
        os.replace(tmp, out)
    if verbose:
        print('kernel_extract: %d kernels, %d untranslated' % (len(KERNELS), len(problems)))
        for p in problems:
            print('  UNTRANSLATED ' + p)
    return dict(kernels=len(KERNELS), problems=problems, by_owner=by_owner)


if __name__ == '__main__':
    r = main(verbose=True)
    sys.exit(0)
