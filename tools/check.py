#!/venv/bin/python
"""check <ID> [--tier quick|thorough] [--replay <file>]

1. regenerate coq/Extracted from the current /repo sources (fail-closed translator);
2. (re)build the dependency cone of coq/Properties/<ID>.v, force re-checking of the property file
   itself and of its source tie, collect `Print Assumptions`;
3. hygiene scan of the Coq development;
4. correspondence check model <-> implementation and property-level predicates on the
   implementation (tools/ffv/props/<id>.py);
5. on a broken obligation: search for a concrete failing input of the property;
6. KNOWN-FINDING / VIOLATION lines, replay files, evidence/<ID>.json.
"""
import argparse, importlib, json, os, re, shutil, sys, time, traceback

sys.path.insert(0, os.path.dirname(os.path.abspath(__file__)))
from ffv import common as C


FORBIDDEN = re.compile(r'\b(Admitted|admit|Axiom|Axioms|Parameter|Parameters|Conjecture|Conjectures)\b|'
                       r'Unset\s+Guard|bypass_check|type-in-type|Admit\s+Obligations|impredicative-set|'
                       r'Unset\s+Positivity|Unset\s+Universe|Unset\s+Strict\s+Universe')
SECTION_ONLY = re.compile(r'^\s*(Variable|Variables|Hypothesis|Hypotheses|Context)\b')


def strip_coq_comments(s):
    out, depth, i = [], 0, 0
    while i < len(s):
        if s.startswith('(*', i):
            depth += 1
            i += 2
        elif s.startswith('*)', i) and depth:
            depth -= 1
            i += 2
        else:
            if not depth:
                out.append(s[i])
            i += 1
    return ''.join(out)


def hygiene_scan():
    """No axiom-like declaration anywhere; Variable/Hypothesis/Context only inside a Section."""
    hits = []
    for root, _, files in os.walk(C.COQ):
        if '/Corr/run-' in root:
            continue
        for f in files:
            if not f.endswith('.v'):
                continue
            path = os.path.join(root, f)
            text = strip_coq_comments(open(path).read())
            text = re.sub(r'"(?:[^"]|"")*"', '""', text)
            stack = []
            for ln, line in enumerate(text.split('\n'), 1):
                m = re.match(r'\s*(Section|Module\s+Type|Module)\s+([A-Za-z0-9_\']+)', line)
                if m and not re.search(r':=', line):
                    stack.append((m.group(1).split()[0], m.group(2)))
                m = re.match(r'\s*End\s+([A-Za-z0-9_\']+)\s*\.', line)
                if m and stack:
                    stack.pop()
                bad = FORBIDDEN.search(line)
                if bad:
                    hits.append('%s:%d: %s' % (os.path.relpath(path, C.VERIF), ln, line.strip()[:100]))
                elif SECTION_ONLY.match(line) and not any(k == 'Section' for k, _ in stack):
                    hits.append('%s:%d: outside a section: %s' % (os.path.relpath(path, C.VERIF), ln, line.strip()[:100]))
    return hits


def write_coqproject():
    files = []
    for root, _, fs in os.walk(C.COQ):
        if '/Corr/run-' in root:
            continue
        for f in sorted(fs):
            if f.endswith('.v') and not (root.endswith('Corr') and f.startswith(('e2e', 'cases_'))):
                files.append(os.path.relpath(os.path.join(root, f), C.COQ))
    files.sort()
    text = '-Q . FF\n' + '\n'.join(files) + '\n'
    path = os.path.join(C.COQ, '_CoqProject')
    changed = not os.path.exists(path) or open(path).read() != text
    if changed:
        open(path, 'w').write(text)
    if changed or not os.path.exists(os.path.join(C.COQ, 'Makefile')):
        rc, out, _ = C.run(['coq_makefile', '-f', '_CoqProject', '-o', 'Makefile'], cwd=C.COQ, timeout=120)
        if rc != 0:
            raise RuntimeError('coq_makefile failed: ' + out)


def make(targets, timeout):
    return C.run(['make', '-j%d' % C.NCPU, '-k'] + targets, cwd=C.COQ, timeout=timeout)


def theorem_names(vpath):
    if not os.path.exists(vpath):
        return []
    text = strip_coq_comments(open(vpath).read())
    return re.findall(r'^\s*(?:Theorem|Lemma|Example|Corollary|Fact|Proposition)\s+([A-Za-z0-9_\']+)', text, re.M)


def parse_assumptions(out):
    """axioms listed by Print Assumptions in the property file's compiler output"""
    axioms = set()
    closed = out.count('Closed under the global context')
    cur = False
    for line in out.split('\n'):
        if line.startswith('Axioms:'):
            cur = True
            continue
        if cur:
            m = re.match(r'^([A-Za-z_][\w\.\']*)\s*(:|$)', line)
            if m:
                axioms.add(m.group(1))
            elif line.startswith(' ') or line.strip() == '':
                continue
            else:
                cur = False
    return sorted(axioms), closed


class Ctx:
    def __init__(self, pid, tier, seed):
        self.pid, self.tier, self.seed = pid, tier, seed
        self.thorough = tier == 'thorough'
        self.rundir_rel = os.path.join('Corr', 'run-%d' % os.getpid())
        self.rundir = os.path.join(C.COQ, self.rundir_rel)
        self.notes = []
        self._nfile = 0

    def rng(self, salt=0):
        import numpy as np
        return np.random.default_rng([self.seed, salt])

    def eval_tallies(self, header, defs, per_file=40, timeout=1200):
        """defs: list of (name, coq_text) where coq_text defines `name : N*N*N` (agree, undecided,
        disagree).  Returns list of (a,u,d) or None (evaluation failed) aligned with defs."""
        os.makedirs(self.rundir, exist_ok=True)
        files, groups = [], []
        for i in range(0, len(defs), per_file):
            grp = defs[i:i + per_file]
            self._nfile += 1
            rel = os.path.join(self.rundir_rel, 'cases_%d.v' % self._nfile)
            body = header + '\n' + '\n'.join(t for _, t in grp) + \
                '\nEval vm_compute in [' + ';'.join(n for n, _ in grp) + '].\n'
            with open(os.path.join(C.COQ, rel), 'w') as f:
                f.write(body)
            files.append(rel)
            groups.append(grp)
        res = C.coq_eval_many(files, timeout=timeout)
        out = []
        for rel, grp in zip(files, groups):
            rc, txt, _ = res[rel]
            trip = re.findall(r'\(\s*(\d+)%N\s*,\s*(\d+)%N\s*,\s*(\d+)%N\s*\)', txt)
            if rc != 0 or len(trip) != len(grp):
                self.notes.append('coq evaluation failed for %s: rc=%s %s' % (rel, rc, txt[-400:]))
                out += [None] * len(grp)
            else:
                out += [tuple(int(x) for x in t) for t in trip]
        return out

    def cleanup(self):
        shutil.rmtree(self.rundir, ignore_errors=True)


def main():
    ap = argparse.ArgumentParser()
    ap.add_argument('pid')
    ap.add_argument('--tier', default=os.environ.get('VERIF_TIER', 'quick'), choices=['quick', 'thorough'])
    ap.add_argument('--replay')
    ap.add_argument('--no-build', action='store_true')
    args = ap.parse_args()
    pid, tier, seed = args.pid.upper(), args.tier, C.seed()
    t0 = time.time()
    os.chdir(C.VERIF)
    mod = importlib.import_module('ffv.props.' + pid.lower())
    ctx = Ctx(pid, tier, seed)

    if args.replay:
        rep = json.load(open(args.replay))
        ok, msg = mod.replay(ctx, rep)
        print(msg)
        if not ok:
            print('VIOLATION property=%s replay=%s' % (pid, args.replay))
        ctx.cleanup()
        return 0 if ok else 1

    broken = []          # names of obligations (theorems / ties / extraction) that no longer check
    log = []
    # checks may be started concurrently: serialise translator + build (they write coq/Extracted and *.vo)
    import fcntl
    lockf = open(os.path.join(C.COQ, '.build.lock'), 'w')
    fcntl.flock(lockf, fcntl.LOCK_EX)
    # 1. translator
    rc, out, _ = C.run([sys.executable, os.path.join(C.VERIF, 'tools', 'extract.py')], timeout=300)
    log.append(out.strip())
    if rc != 0:
        broken.append('extract.py (fail-closed translator): ' + out.strip()[-300:])
    # the two property-specific translators (their own failures are reported by the plugins of C18 / C01, which
    # regenerate again and compare): run here as well so that the build below sees the current source
    for extra in ('alias_extract.py', 'kernel_extract.py'):
        ep = os.path.join(C.VERIF, 'tools', extra)
        if os.path.exists(ep):
            rcx, outx, _ = C.run([sys.executable, ep], timeout=600)
            log.append('%s rc=%s' % (extra, rcx))
    # 2. build
    prop_v = os.path.join('Properties', pid + '.v')
    tie_v = os.path.join('Model', 'Tie', pid + '.v')
    obligations = theorem_names(os.path.join(C.COQ, prop_v)) + theorem_names(os.path.join(C.COQ, tie_v))
    discharged = 0
    axioms, closed = [], 0
    checker_cmd = 'coq_makefile -f _CoqProject -o Makefile && make -j%d Properties/%s.vo ; coqc -Q . FF Properties/%s.v (Print Assumptions)' % (C.NCPU, pid, pid)
    try:
        write_coqproject()
        for f in (prop_v, tie_v):
            vo = os.path.join(C.COQ, f + 'o')
            if os.path.exists(vo):
                os.remove(vo)      # force re-checking of the property file and its tie
        rc, out, secs = make([prop_v + 'o'], timeout=3000 if tier == 'quick' else 6000)
        log.append('make rc=%s (%.0fs)' % (rc, secs))
        if rc != 0:
            # only real errors: a 'File ..., line ...' header followed by 'Error' (not 'Warning')
            errs = [m for m in re.findall(r'File "\./([^"]+)", line (\d+)[^\n]*\n((?:.*\n){0,6})', out)
                    if re.match(r'\s*Error', m[2])]
            for f, ln, msg in errs[:5]:
                nm = f
                ths = [(m.start(), m.group(1)) for m in re.finditer(
                    r'(?:Theorem|Lemma|Example|Corollary)\s+([A-Za-z0-9_\']+)', open(os.path.join(C.COQ, f)).read())]
                try:
                    txt = open(os.path.join(C.COQ, f)).read()
                    off = sum(len(l) + 1 for l in txt.split('\n')[:int(ln) - 1])
                    prev = [n for o, n in ths if o <= off]
                    if prev:
                        nm = '%s:%s' % (f, prev[-1])
                except OSError:
                    pass
                broken.append('%s (line %s): %s' % (nm, ln, ' '.join(msg.split())[:200]))
            if not errs:
                broken.append('make failed: ' + out[-300:])
        else:
            rc2, out2, _ = C.coqc(prop_v, timeout=1200)
            if rc2 != 0:
                broken.append('%s: %s' % (prop_v, out2[-300:]))
            else:
                discharged = len(obligations)
                axioms, closed = parse_assumptions(out2)
    except Exception as e:      # noqa
        broken.append('build infrastructure: %r' % e)
    if tier == 'thorough' and not broken:
        rc3, out3, secs3 = C.run(['coqchk', '-silent', '-o', '-Q', '.', 'FF', 'FF.Properties.' + pid], cwd=C.COQ, timeout=3000)
        log.append('coqchk rc=%s (%.0fs)' % (rc3, secs3))
        if rc3 == 124:
            # inconclusive, not an alarm: the independent checker does not use the bytecode VM, so proofs by large
            # computations (vm_compute) can exceed the time limit; the kernel check by coqc above stands
            log.append('coqchk did not finish within the time limit (inconclusive; obligations checked by coqc only)')
        elif rc3 != 0:
            broken.append('coqchk: ' + out3[-300:])
        else:
            checker_cmd += ' ; coqchk -silent -o -Q . FF FF.Properties.%s' % pid
    fcntl.flock(lockf, fcntl.LOCK_UN)
    lockf.close()
    # 3. hygiene
    hy = hygiene_scan()
    if hy:
        broken.append('hygiene scan: ' + '; '.join(hy[:5]))
    # 4. correspondence + property-level predicates
    res = {'evaluations': 0, 'distinct_nontrivial': 0, 'rule': '', 'samples': [], 'failures': [], 'classes': {}}
    try:
        res.update(mod.run(ctx))
    except Exception as e:      # noqa
        traceback.print_exc()
        res['failures'].append({'kind': 'harness', 'signature': 'harness-exception', 'observable': 'harness',
                                'detail': repr(e), 'input': None})
    # 5. broken obligation -> search for a failing input
    failures = list(res['failures'])
    ksig = {e['signature'] for e in C.known_findings(pid)}
    new_fail = [f for f in failures if f.get('signature') not in ksig]     # failures not suppressed as known findings
    if broken and not any(f['kind'] in ('prop', 'corr') for f in new_fail):
        try:
            found = mod.search(ctx, broken) if hasattr(mod, 'search') else None
        except Exception as e:  # noqa
            traceback.print_exc()
            found = None
        if found:
            failures += found
        else:
            failures.append({'kind': 'obligation', 'signature': 'broken-obligation', 'observable': '; '.join(broken)[:600],
                             'detail': 'no failing input found by the search', 'input': None, 'nofail': True})
    elif broken:
        for f in failures:
            f.setdefault('broken_obligations', broken)
    # 6. report
    known = C.known_findings(pid)
    viol = 0
    known_hit = {}
    seen_sig = {}
    os.makedirs(os.path.join(C.VERIF, 'replays'), exist_ok=True)
    for n, f in enumerate(failures):
        k = next((e for e in known if e['signature'] == f.get('signature')), None)
        if k is not None:
            known_hit.setdefault(k['signature'], (k, 0))
            known_hit[k['signature']] = (k, known_hit[k['signature']][1] + 1)
            continue
        viol += 1
        sigkey = (f.get('signature'), f.get('observable'))
        seen_sig[sigkey] = seen_sig.get(sigkey, 0) + 1
        if seen_sig[sigkey] > 1 or len(seen_sig) > 8:
            continue        # one replay per class of failure
        path = os.path.join('replays', '%s-%d-%d.json' % (pid, seed, n))
        C.write_json(os.path.join(C.VERIF, path), {'property': pid, 'seed': seed, 'tier': tier, **f})
        tail = ' no-failing-input-found' if f.get('nofail') else ''
        print('VIOLATION property=%s replay=%s%s' % (pid, path, tail))
        print('  [%s] %s: %s' % (f.get('kind'), f.get('observable'), str(f.get('detail'))[:300]))
    for sig, (k, cnt) in known_hit.items():
        print('KNOWN-FINDING: property=%s %s (%d case(s) this run; signature %s)' % (pid, k['what'], cnt, sig))
    wall = time.time() - t0
    ev = {
        'property_id': pid, 'tier': tier, 'seed': seed, 'level': 'proof',
        'coverage': {
            'obligations': max(len(obligations), 1), 'discharged': discharged,
            'obligation_names': obligations, 'broken': broken,
            'checker_cmd': checker_cmd,
            'trusted_base': ['Coq 8.16.1 kernel + vm_compute'] + ['axiom (Print Assumptions): ' + a for a in axioms] +
                            ['%d theorem(s) closed under the global context' % closed,
                             'tools/extract.py (translator)', 'tools/ffv harness (dyadic printing, verdict parsing)'] +
                            getattr(mod, 'TRUSTED', []),
            'evaluations': int(res['evaluations']), 'distinct_nontrivial': int(res['distinct_nontrivial']),
            'rule': res['rule'], 'samples': res['samples'][:8], 'input_classes': res.get('classes', {}),
            'known_findings_hit': {s: c for s, (k, c) in known_hit.items()},
            'correspondence': res.get('corr', {}),
            'exhaustive': bool(res.get('exhaustive', False) or res.get('corr', {}).get('exhaustive', False)),
            'notes': ctx.notes[:20] + log,
        },
        'assumptions': getattr(mod, 'ASSUMPTIONS', []),
        'wall_s': round(wall, 2), 'violations': viol,
    }
    if discharged < 1:      # schema: discharged >= 1; a run with no discharged obligation reports a violation anyway
        ev['coverage']['discharged_count'] = ev['coverage'].pop('discharged')
    C.write_json(os.path.join(C.VERIF, 'evidence', pid + '.json'), ev)
    ctx.cleanup()
    print('%s %s: obligations %d/%d, evaluations %d (distinct non-trivial %d), violations %d, known %d, %.0fs' % (
        pid, tier, discharged, len(obligations), res['evaluations'], res['distinct_nontrivial'], viol, len(known_hit), wall))
    return 1 if viol else 0


if __name__ == '__main__':
    sys.exit(main())
