#!/venv/bin/python
"""Regenerates MANIFEST.json from tools/manifest_entries.json (kept valid at all times)."""
import json, os
V = os.path.dirname(os.path.dirname(os.path.abspath(__file__)))
ent = json.load(open(os.path.join(V, 'tools', 'manifest_entries.json')))
ddir = os.path.join(V, 'tools', 'manifest_entries.d')
if os.path.isdir(ddir):
    for f in sorted(os.listdir(ddir)):
        if f.endswith('.json'):
            ent[f[:-5]] = json.load(open(os.path.join(ddir, f)))
props = [json.loads(l) for l in open(os.path.join(V, 'properties.jsonl'))]
checks, na = [], []
for p in props:
    pid = p['id']
    e = ent.get(pid)
    if e and e.get('claimed'):
        checks.append({
            'property_id': pid,
            'quick_cmd': './check %s --tier quick' % pid,
            'thorough_cmd': './check %s --tier thorough' % pid,
            'replay_cmd_template': './check %s --replay {path}' % pid,
            'evidence_file': 'evidence/%s.json' % pid,
            'engine': 'coq-ff',
            'level_claimed': {'category': 'proof', 'text': e['text'], 'design_ref': 'DESIGN.md section 6 / %s' % pid},
            'level_note': e['note'],
            'technique': e['technique'],
        })
    else:
        na.append({'property_id': pid, 'reason': (e or {}).get('reason', 'check not built yet (work in progress); see DESIGN.md section 11')})
m = {
    'version': 1,
    'setup_cmd': './setup.sh',
    'hooks': {'guard': 'FF_VERIF', 'enable': 'no source hooks: the harness observes the package through its public attributes, '
              'ndarray.flags.writeable and monkeypatching inside the harness process',
              'baseline_off_cmd': 'cd /repo && /venv/bin/python -m pytest -ra -q -p no:cacheprovider --timeout=900 --continue-on-collection-errors',
              'source_commits': [], 'add_only': True},
    'engines': [{'name': 'coq-ff', 'path': 'coq/', 'serves_properties': [c['property_id'] for c in checks],
                 'kind_free_text': 'Coq 8.16.1 development (model polymorphic in scalar operations; real instance for theorems, '
                                   'Coq-Interval instance for execution; enclosure by paramcoq parametricity) + fail-closed source '
                                   'translator (tools/extract.py) + correspondence harness (tools/ffv)'}],
    'checks': checks,
    'not_applicable': na,
    'notes': 'See DESIGN.md. fix: commits in /repo repair genuine defects found (known_findings.jsonl lists them).',
}
json.dump(m, open(os.path.join(V, 'MANIFEST.json'), 'w'), indent=1)
print('MANIFEST: %d checks, %d not claimed' % (len(checks), len(na)))
